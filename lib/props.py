"""Per-property checks."""
import json
import os
import re
import shutil

import engines
import hist
from common import (Broken, Rng, VERIF, build_harness, build_dirk, build_lean, audit, grep_forbidden, hx)
from hist import TWO63, TWO64, DOM_ATT, DOM_PROP, DOM_EXIT, DOM_RANDAO

TRUSTED = [
    "Lean 4.33.0 kernel (lake build); axioms limited to propext, Classical.choice, Quot.sound (audited with #print axioms)",
    "hand-written Lean model Dirk/Model/*.lean tied to /repo by the differential correspondence check (Go harness dh + compiled Lean driver dirkmodel)",
    "Lean compiler for the executable model; Python orchestration (generators, diff, shrink)",
]

THEOREMS = {}


REPLAY = None    # the "replay" object of a replay file when ./check runs with --replay: the engines then execute
                 # that input alone (same judges, same comparison) instead of generating inputs


def replay_history():
    r = REPLAY
    if r and "config" in r and "ops" in r and not replay_is_imp():
        return {"cfg": r["config"], "ops": r["ops"], "accts": hist.accts_from_config(r["config"]), "opts": {}}
    return None


def replay_is_imp():
    """the replay's ops are commands of the imp engine (the dirk binary on a storage directory)"""
    r = REPLAY
    return bool(r) and any(o.split()[0] in ("import", "probeatt", "probeprop", "roundtrip", "exportb") for o in r.get("ops", []))


def prove(rep, pid):
    """Re-check the Lean side: build, forbid sorry & co, audit axioms of the property's theorems."""
    mod, thms = THEOREMS[pid]
    build_lean(["dirkmodel"])          # the model driver is needed by every engine: a failure here is fatal
    rep.cov["trusted_base"] = TRUSTED
    cmd = "cd lean && lake build dirkmodel %s && lake env lean <#print axioms of its theorems>" % mod
    try:
        build_lean([mod])
        grep_forbidden()
        n, ok, details = audit(mod, thms)
        rep.add_proof(n, ok, details, cmd)
        if rep.tier == "thorough":
            # independent re-check of the compiled module (and everything it imports) by the toolchain's leanchecker
            from common import sh, LEAN
            rc, o, e = sh(["lake", "env", "leanchecker", mod], cwd=LEAN, timeout=3600)
            rep.cov["leanchecker"] = "ok" if rc == 0 else "FAILED: " + (o + e)[-400:]
            if rc != 0:
                raise Broken("leanchecker", (o + e)[-2000:])
    except Broken as b:
        # a proof obligation (possibly one about the regenerated facts) no longer checks: record it and go on to
        # the engines, which search for a concrete failing input
        rep.add_proof(len(thms), 0, {"error": b.detail[-1500:]}, cmd)
        rep.broken.append(("proof:%s(%s)" % (mod, b.what), b.detail[-3000:], False))


def att_line(client, adr, s, t, tag=0, dom=None, faults="-", slot=0):
    dom = hist.DOM_ATT + bytes(28) if dom is None else dom
    r = bytes([0xA0 + tag]) * 32
    return "att %s - %s %s,%d,0,%s,%d,%s,%d,%s %s" % (hx(client), adr, hist.optbytes(dom), slot, r.hex(), s, r.hex(), t, r.hex(), faults)


def att_item(adr, s, t, tag=0, dom=None):
    dom = hist.DOM_ATT + bytes(28) if dom is None else dom
    r = bytes([0xA0 + tag]) * 32
    return "%s,%s,0,0,%s,%d,%s,%d,%s" % (adr, hist.optbytes(dom), r.hex(), s, r.hex(), t, r.hex())


def prop_line(client, adr, slot, tag=0, dom=None, faults="-"):
    dom = hist.DOM_PROP + bytes(28) if dom is None else dom
    r = bytes([0xA0 + tag]) * 32
    return "prop %s - %s %s,%d,1,%s,%s,%s %s" % (hx(client), adr, hist.optbytes(dom), slot, r.hex(), r.hex(), r.hex(), faults)


def corpus_histories(keys, which):
    """Hand-written witness histories (always run first)."""
    accts, perms, admins = hist.std_config(keys, nacct=5)
    cfg = hist.config_lines(accts, perms, admins)
    a0, a1, a2 = accts[0], accts[1], accts[2]
    n0, k0 = "n:" + hx(a0.path), "k:" + a0.pk.hex()
    n1, k1 = "n:" + hx(a1.path), "k:" + a1.pk.hex()
    n2 = "n:" + hx(a2.path)
    H = []
    if which in ("C01", "all"):
        big = [TWO63 - 1, TWO63, TWO63 + 1, TWO64 - 1]
        for t in big:
            # double vote at a huge target, by name then by key, different roots
            H.append([att_line("client1", n0, 5, t, 0), att_line("client1", k0, 5, t, 1), "export"])
            # surround around a huge source
            H.append([att_line("client1", n0, min(t, TWO64 - 2), TWO64 - 1, 0), att_line("client1", n0, 3, 7, 1), "export"])
        for t in big[1:]:
            # a key's FIRST attestation carries epochs >= 2^63 (whatever is done with it, nothing conflicting may follow):
            # both epochs huge then the same target with another root; ordinary source / huge target then one it surrounds
            H.append([att_line("client1", n0, t - 1, t, 0), att_line("client1", k0, t - 1, t, 1), att_line("client1", n0, t - 1, t, 2), "export"])
            H.append([att_line("client1", n1, 5, t, 0), att_line("client1", k1, 6, 7, 1), "export"])
            H.append(["atts %s - - %s" % (hx("client1"), ";".join([att_item(n0, t - 2, t, 0), att_item(n1, t - 2, t, 0)])),
                      "restart",
                      "atts %s - - %s" % (hx("client1"), ";".join([att_item(k0, t - 1, t - 1 if t - 1 > TWO63 else t, 1), att_item(k1, t - 2, t, 1)])), "export"])
        H.append([att_line("client1", n0, 0, 0, 0), att_line("client1", k0, 0, 0, 1), "export"])      # genesis double vote
        H.append([att_line("client1", n0, 2, 9, 0), "restart", att_line("client1", k0, 3, 8, 1), att_line("client1", n0, 1, 10, 2)])  # surrounded / surrounding
        H.append(["atts %s - - %s" % (hx("client1"), ";".join([att_item(n0, 1, 4, 0), att_item(k0, 1, 4, 1)])), "export"])  # same key twice in a batch
        H.append(["atts %s - - %s" % (hx("client1"), ";".join([att_item(n0, 1, 4, 0), att_item(n1, 1, 4, 0)])),
                  "atts %s - - %s" % (hx("client1"), ";".join([att_item(k1, 1, 4, 1), att_item(n2, 1, 4, 0)])),
                  att_line("client1", k0, 0, 4, 2), "export"])
        H.append([att_line("client1", n0, 3, 6, 0, faults="S"), att_line("client1", n0, 3, 6, 1), "export"])
        H.append(["atts %s - S %s" % (hx("client1"), ";".join([att_item(n0, 3, 6, 0), att_item(n1, 3, 6, 0)])),
                  att_line("client1", n0, 3, 6, 1), "export"])
    if which in ("C02", "all"):
        for s in [0, 1, TWO63 - 1, TWO63, TWO63 + 1, TWO64 - 1]:
            H.append([prop_line("client1", n0, s, 0), prop_line("client1", k0, s, 1), "export"])
        H.append([prop_line("client1", n0, 10, 0), "restart", prop_line("client1", k0, 9, 1), prop_line("client1", n0, 11, 1), "export"])
        H.append([prop_line("client1", n0, 5, 0, faults="S"), prop_line("client1", n0, 5, 1), "export"])
    return [{"cfg": cfg, "ops": ops, "accts": accts, "opts": {}} for ops in H]


def header_root(slot, proposer, parent, state, body):
    """SSZ hash tree root of a BeaconBlockHeader (five fields, eight leaves); cross-checked against the Lean model's
    `proot` wherever it is used"""
    import hashlib
    leaves = [slot.to_bytes(8, "little") + bytes(24), proposer.to_bytes(8, "little") + bytes(24), parent, state, body] + [bytes(32)] * 3
    while len(leaves) > 1:
        leaves = [hashlib.sha256(leaves[i] + leaves[i + 1]).digest() for i in range(0, len(leaves), 2)]
    return leaves[0]


def generic_cross_histories(keys, rng):
    """C02: a proposal is signed; a second header for the same slot is refused on the proposal endpoint; then a Multisign
    request carries that second header's root under the proposer domain in an entry that FAILS its pre-check (unknown
    account / account the client may not use), in front of / behind a harmless entry for the victim account.  Whatever the
    reply, no signature by the victim's key may verify over the second header's signing root (judge_cross)."""
    accts, perms, admins = hist.std_config(keys, nacct=5)
    cfg = hist.config_lines(accts, perms, admins)
    H = []
    dom_p = (hist.DOM_PROP + bytes(28)).hex()
    dom_r = (hist.DOM_RANDAO + bytes(28)).hex()
    harmless = (bytes([0x5A]) * 32).hex()
    for vi, slot in ((0, 10), (1, 12345), (2, TWO63 + 5)):
        v = accts[vi]
        nv, kv = "n:" + hx(v.path), "k:" + v.pk.hex()
        r1 = bytes([0xA1]) * 32
        h2 = header_root(slot, 1, r1, r1, r1).hex()
        for bad in ("n:" + hx("Wallet 1/No such account"), "n:" + hx("Nowhere/Account 1"), "k:" + (bytes([0xC0]) + bytes(47)).hex()):
            for order in (0, 1):
                ent = ["%s,%s,%s" % (bad, dom_p, h2), "%s,%s,%s" % (nv if order == 0 else kv, dom_r, harmless)]
                if order == 1:
                    ent = [ent[1], ent[0], "%s,%s,%s" % (nv, dom_r, harmless)]
                H.append({"cfg": cfg, "accts": accts, "opts": {}, "header2": (slot, h2, dom_p), "ops": [
                    prop_line("client1", nv, slot, 0), prop_line("client1", kv, slot, 1),
                    "msign %s - - %s" % (hx("client1"), ";".join(ent)),
                    "sign %s - %s %s,%s -" % (hx("client1"), nv, dom_p, h2), "export"]})
    return H


def tier_sizes(tier, quick, thorough):
    return thorough if tier == "thorough" else quick


def judge_slash(pid):
    want = {"C01": "att", "C02": "prop"}[pid]

    def fn(rep, dh, wd, all_h):
        bad, nrel = engines.judge_slashing(all_h)
        rep.cov["released_signatures_judged"] = nrel
        for (hi, kind, key, i, j, data, verdict) in bad:
            if kind != want:
                continue
            h = all_h[hi]

            def pred(ops, impl, model, crashed, h=h, kind=kind):
                hh = dict(h, ops=ops, impl=impl, model=model)
                b, _ = engines.judge_slashing([hh])
                return any(x[1] == kind for x in b)
            small = engines.shrink_history(dh, wd, h, pred) if len(h["ops"]) > 3 else h["ops"]
            fields = data.split(",")
            nums = [fields[4], fields[6]] if kind == "att" else [fields[1]]
            key_desc = "%s-%s" % (kind, "epoch>=2^63" if any(int(x) >= TWO63 for x in nums) else "general")
            rep.violation(key_desc,
                          "implementation released %s signatures judged %s by the Lean Spec predicate" % (kind, verdict),
                          {"config": h["cfg"], "ops": small, "gomaxprocs": h.get("gomaxprocs")})
            return True
        return False
    return fn


def witness_search(pid, dh, wd, h, upto):
    """After a model/implementation disagreement: look for a concrete slashable pair on the implementation.
    For every signature the implementation released in h.ops[:upto+1] and every spelling under which the same
    key is addressed in the history, replay the vote with another root (double vote / double proposal), a
    surrounding and a surrounded vote; judge everything released with the Lean predicate."""
    ops = h["ops"][:upto + 1]
    rel = hist.released(ops, h["impl"], h["accts"])
    spell = {}
    for op in h["ops"]:
        f = op.split()
        adrs = []
        if f[0] in ("att", "prop"):
            adrs = [f[3]]
        elif f[0] == "atts":
            adrs = [it.split(",")[0] for it in f[4].split(";")]
        for a in adrs:
            k = hist.key_of_addr(a, h["accts"])
            if k is not None:
                spell.setdefault(k, set()).add(a)
    for a in h["accts"]:
        spell.setdefault(a.pk, set()).update(["n:" + hx(a.path), "k:" + a.pk.hex(), "k:" + a.pk.hex() + "00"])
    wit = []
    for (k, key, data, sig, i, j, st) in rel[-12:]:
        f = data.split(",")
        for adr in sorted(spell.get(key, []))[:6]:
            if k == "att" and pid == "C01":
                s_, t_ = int(f[4]), int(f[6])
                r2 = "b9" * 32
                base = "%s,%s,%s,%s" % (f[0], f[1], f[2], r2)
                wit.append("att %s - %s %s,%d,%s,%d,%s -" % (hx("clientall"), adr, base, s_, r2, t_, r2))
                wit.append("atts %s - - %s,%s,%d,%s,%d,%s" % (hx("clientall"), adr, base, s_, r2, t_, r2))
                if s_ > 0:
                    wit.append("att %s - %s %s,%d,%s,%d,%s -" % (hx("clientall"), adr, base, s_ - 1, r2, t_ + 1, r2))
                if t_ > s_ + 2:
                    wit.append("atts %s - - %s,%s,%d,%s,%d,%s" % (hx("clientall"), adr, base, s_ + 1, r2, t_ - 1, r2))
            elif k == "prop" and pid == "C02":
                r2 = "b9" * 32
                wit.append("prop %s - %s %s,%s,%s,%s,%s,%s -" % (hx("clientall"), adr, f[0], f[1], f[2], r2, r2, r2))
    if not wit:
        return None
    h2 = dict(h, ops=ops + wit)
    engines.exec_histories(dh, wd, [h2], jobs=1)
    bad, _ = engines.judge_slashing([h2])
    want = {"C01": "att", "C02": "prop"}.get(pid)
    bad = [b for b in bad if b[1] == want]
    if not bad:
        return None

    def pred(ops_, impl, model, crashed):
        b, _ = engines.judge_slashing([dict(h2, ops=ops_, impl=impl, model=model)])
        return any(x[1] == want for x in b)
    small = engines.shrink_history(dh, wd, h2, pred, max_trials=60)
    return small, bad[0][-1]


def judge_lines(rep, all_h, make_lines, label):
    """Generic judge: make_lines(h) yields (judge line, meta); runs them through the Lean driver."""
    lines, index = [], []
    for hi, h in enumerate(all_h):
        lines.append("reset")
        lines += [l for l in h["cfg"] if l.split()[0] in ("admin",)]
        for (l, meta) in make_lines(h):
            lines.append(l)
            index.append((hi,) + tuple(meta))
    from common import run_model
    out = run_model(lines)
    rep.cov[label] = len(index)
    return [m + (o.strip(),) for m, o in zip(index, out) if o.strip() != "ok"]


def judge_sig(rep, dh, wd, all_h):
    badsig, nsig = engines.sigcheck(dh, all_h)
    rep.cov["signatures_verified_against_model_root"] = nsig
    if badsig:
        hi, i, j = badsig[0]
        if all_h[hi].get("concurrent"):
            import conc as _c
            rep.violation("bad-signature-concurrent", "with many signing requests in flight, a signature does not verify under the addressed key over the model's signing root for ITS request (%d of %d signatures)" % (len(badsig), nsig),
                          {"config": all_h[hi]["cfg"], "scenario": _c.scenario_lines([], "yield", [(0, o) for o in all_h[hi]["ops"]], 64),
                           "gomaxprocs": all_h[hi].get("gomaxprocs"), "request": all_h[hi]["ops"][i][:300], "position": j})
            return True
        rep.violation("bad-signature", "signature does not verify under the addressed key over the model's signing root",
                      {"config": all_h[hi]["cfg"], "ops": all_h[hi]["ops"][:i + 1], "position": j,
                       "gomaxprocs": all_h[hi].get("gomaxprocs")})
        return True
    return False


SIGN_KINDS = ("att", "atts", "atts0", "prop", "sign", "msign")


def run_hist_property(rep, tier, seed, wd, pid, kinds, opts, sizes, judges=(), extra_hist=None,
                      nontrivial=None, corpus=True):
    """Common flow of the hist-engine properties. `kinds` = op kinds whose disagreement matters here."""
    dh = build_harness(wd)
    keys = hist.interop_keys(dh)
    rng = Rng(seed * 1000003 + sum(ord(c) for c in pid))
    n_hist, n_ops = sizes
    hs = corpus_histories(keys, pid) if corpus else []
    if extra_hist:
        hs += extra_hist(keys, rng)
    hs += engines.gen_histories(rng, keys, n_hist, n_ops, opts)
    procs = opts.get("gomaxprocs", [None])
    if REPLAY is not None:
        rh = replay_history()
        hs = [rh] if rh else []
        procs = [REPLAY.get("gomaxprocs")]
        rep.cov["replay"] = "history of %d ops from the replay file" % len(rh["ops"]) if rh else "replay file holds no history for this engine"
    all_h = []
    for p in procs:
        env = {"GOMAXPROCS": str(p)} if p else None
        cur = [dict(h) for h in hs]
        crashed, err = engines.exec_histories(dh, wd, cur, env=env)
        if crashed:
            rep.broken.append(("implementation-crash:hist", "the harness process died: " + err, False))
        for h in cur:
            h["gomaxprocs"] = p
        all_h += cur
    rep.cov["traces_validated_against_impl"] = len(all_h)
    # a request that is never answered (the harness's two-minute watchdog per request)
    for h in all_h:
        for i, il in enumerate(h.get("impl", [])):
            if il.startswith("TIMEOUT") and i < len(h["ops"]):
                rep.violation("request-never-answered", "a request was not answered within the watchdog: " + h["ops"][i][:120],
                              {"config": h["cfg"], "ops": h["ops"][:i + 1], "gomaxprocs": h.get("gomaxprocs")})
                break
    first_bad = None
    for hi, h in enumerate(all_h):
        rel = [b for b in h["bad"] if b[1].split()[0] in kinds or b[0] == -1]
        if rel and first_bad is None:
            first_bad = (hi, rel[0])
        for i, op in enumerate(h["ops"]):
            k = op.split()[0]
            rep.dist("op", k)
            if i < len(h["impl"]) and k in kinds and k in SIGN_KINDS:
                for st in hist.states_of(h["impl"][i]):
                    rep.dist("state", st)
                fl = op.split()[5] if k in ("att", "prop", "sign") else (op.split()[3] if k in ("atts", "msign") else "-")
                if fl != "-":
                    rep.dist("fault", fl[0])
        nt = nontrivial(h) if nontrivial else True
        rep.count(json.dumps(h["ops"]), nt)
    if all_h:
        h = all_h[-1]
        rep.sample({"ops": [o[:300] for o in h["ops"][:3]], "impl": [o[:80] for o in h["impl"][:3]],
                    "model": [o[:80] for o in h["model"][:3]]})
    found_violation = False
    for jf in judges:
        if jf(rep, dh, wd, all_h):
            found_violation = True
    if first_bad is not None:
        hi, (i, op, il, ml) = first_bad
        h = all_h[hi]
        if not found_violation and pid in ("C01", "C02") and i >= 0:
            w = witness_search(pid, dh, wd, h, i)
            if w is not None:
                small, verdict = w
                rep.violation("%s-witness" % pid, "violation search after a model/implementation disagreement: the implementation released "
                              "signatures judged %s by the Lean Spec predicate" % verdict,
                              {"config": h["cfg"], "ops": small, "gomaxprocs": h.get("gomaxprocs")})
                found_violation = True

        def pred(ops, impl, model, crashed, kinds=kinds):
            return any(b[1].split()[0] in kinds for b in hist.compare_lines(ops, impl, model))
        try:
            small = engines.shrink_history(dh, wd, dict(h, ops=h["ops"][:i + 1]), pred, max_trials=40) if i >= 0 else h["ops"][:1]
        except Exception:
            small = h["ops"][:i + 1]
        rep.broken.append(("correspondence:hist(model %s vs implementation)" % pid,
                           json.dumps({"first_disagreement": {"op_index": i, "op": op, "impl": il, "model": ml},
                                       "config": h["cfg"], "ops_minimised": small}), found_violation))
    return all_h


def twin_histories(kind):
    """a second rules service opened on the storage path of the running instance (overlapping restart, second daemon):
    it must be refused; if it opens, the instance signs one message and the twin is asked to approve a conflicting one"""
    def mk(keys, rng):
        accts, perms, admins = hist.std_config(keys, nacct=4, locked=False)
        cfg = hist.config_lines(accts, perms, admins)
        n0 = "n:" + hx(accts[0].path)
        k1 = "k:" + accts[1].pk.hex()
        H = []
        if kind == "prop":
            pd = lambda slot, tag: prop_line("client1", n0, slot, tag).split(" ")[4]
            ops = [prop_line("client1", n0, 100, 0), "twinprop %s %s %s %s" % (hx("client1"), n0, pd(200, 0), pd(200, 1)),
                   prop_line("client1", n0, 200, 1), "twinprop %s %s %s %s" % (hx("client1"), k1, pd(7, 0), pd(7, 1)), "export"]
        else:
            ad = lambda s_, t_, tag: att_line("client1", n0, s_, t_, tag).split(" ")[4]
            ops = [att_line("client1", n0, 1, 2, 0), "twinatt %s %s %s %s" % (hx("client1"), n0, ad(2, 3, 0), ad(2, 3, 1)),
                   att_line("client1", n0, 2, 3, 1), "twinatt %s %s %s %s" % (hx("client1"), k1, ad(5, 6, 0), ad(5, 6, 1)), "export"]
        H.append({"cfg": cfg, "ops": ops, "accts": accts, "opts": {}})
        return H
    return mk


def legacy_histories(kind, dh):
    """stores carried over from an old release: records in the legacy gob format holding small values INCLUDING ZERO (which
    gob does not transmit); what those records say was signed must still be refused"""
    def mk(keys, rng):
        accts, perms, admins = hist.std_config(keys, nacct=4, locked=False)
        H = []
        for val in (0, 1, 5):
            if kind == "prop":
                rec = gob_records(dh, ["prop %d" % val])[0]
                raws = [(a.pk + b"\x03", rec) for a in accts[:2]]
                n0, k1 = "n:" + hx(accts[0].path), "k:" + accts[1].pk.hex()
                ops = [prop_line("client1", n0, val, 1), prop_line("client1", k1, val, 2)] + ([prop_line("client1", n0, val - 1, 1)] if val else []) + \
                      [prop_line("client1", n0, val + 1, 1), prop_line("client1", n0, val + 1, 2), "export"]
            else:
                rec = gob_records(dh, ["att %d %d" % (val, val + 1)])[0]
                raws = [(a.pk + b"\x02", rec) for a in accts[:2]]
                n0, k1 = "n:" + hx(accts[0].path), "k:" + accts[1].pk.hex()
                ops = [att_line("client1", n0, val, val + 1, 1), att_line("client1", k1, val, val + 1, 2), att_line("client1", n0, val + 1, val + 2, 1),
                       att_line("client1", n0, val, val + 3, 2), "export"]
            H.append({"cfg": hist.config_lines(accts, perms, admins, raws), "ops": ops, "accts": accts, "opts": {},
                      "prior": {a.pk: val for a in accts[:2]}, "prior_kind": kind})
        return H
    return mk


def judge_prior(pid):
    """what the store's records (written by an earlier release) say was signed counts as signed: no proposal at or below the
    recorded slot, no attestation with target at or below the recorded target (val + 1) or source below the recorded source"""
    def fn(rep, dh, wd, all_h):
        for h in all_h:
            if "prior" not in h:
                continue
            for (k, key, data, sig, i, j, st) in hist.released(h["ops"], h["impl"], h["accts"]):
                if key not in h["prior"]:
                    continue
                val = h["prior"][key]
                f = data.split(",")
                bad = (k == "prop" and h["prior_kind"] == "prop" and int(f[1]) <= val) or \
                      (k == "att" and h["prior_kind"] == "att" and (int(f[6]) <= val + 1 or int(f[4]) < val))
                if bad:
                    rep.violation("signed-against-recorded-history", "a request at or below what the key's record in the store (legacy format) says was signed was signed again",
                                  {"config": h["cfg"], "ops": h["ops"][:i + 1], "position": j, "recorded": val})
                    return True
        return False
    return fn


def judge_twin(pid):
    def fn(rep, dh, wd, all_h):
        for h in all_h:
            for i, op in enumerate(h["ops"]):
                if op.startswith("twin") and i < len(h["impl"]) and h["impl"][i].startswith("opened"):
                    rep.violation("second-instance-on-live-store", "a second rules service opened the storage path of a running instance (no directory lock): "
                                  "each has its own view of what was signed (%s)" % h["impl"][i][:80],
                                  {"config": h["cfg"], "ops": h["ops"][:i + 1], "impl": h["impl"][i][:200]})
                    return True
        return False
    return fn


def c01(rep, tier, seed, wd, replay):
    rep.cov["rule"] = ("histories of single/batch attestation requests (by name/key, duplicate keys, boundary epochs incl. >=2^63, "
                       "restarts, injected store faults) over 5-6 accounts; non-trivial = releases >=2 signatures for one key or "
                       "contains a refused request")
    rep.assumptions += ["badger: Update/WriteBatch.Flush atomic; a failed write either landed or did not (both proved)",
                        "account resolution by name and by key agree (checked by the engine)"]
    prove(rep, "C01")
    sizes = tier_sizes(tier, (40, 40), (400, 120))
    opts = {"faults": True, "huge": True}
    if tier == "thorough":
        opts["gomaxprocs"] = [1, 2, 16]

    def nontriv(h):
        rel = hist.released(h["ops"], h["impl"], h["accts"])
        ks = [r[1] for r in rel if r[0] == "att"]
        return len(ks) != len(set(ks)) or any("D" in hist.states_of(l) for l in h["impl"] if l)
    run_hist_property(rep, tier, seed, wd, "C01", ("att", "atts", "atts0", "export", "restart", "twinatt"), opts, sizes,
                      judges=[judge_slash("C01"), judge_twin("C01"), judge_prior("C01")], nontrivial=nontriv,
                      extra_hist=lambda k_, r_: twin_histories("att")(k_, r_) + legacy_histories("att", build_harness(wd))(k_, r_))
    if REPLAY is None or any(o.startswith("pause") for o in REPLAY.get("ops", [])):
        dh_s = build_harness(wd)
        startup_stage(rep, dh_s, wd, hist.interop_keys(dh_s), False)
    if REPLAY is None or "rbatch" in REPLAY:
        # batches far wider than any wallet here could hold, at the ruler (as the signer hands them over), over synthetic
        # validator keys: whatever the store does with a batch of 10^5 entries, a vote conflicting with one just approved is refused
        from common import run_impl
        dh_ = build_harness(wd)
        wk = hist.interop_keys(dh_)
        wa, wp, wadm = hist.std_config(wk, nacct=2, locked=False)
        nw = 105000 if tier != "thorough" else 330000
        wl = REPLAY["rbatch"] if REPLAY is not None else ["rbatch %d 0 10 11 0" % nw, "rbatch %d 0 10 11 1" % nw, "rbatch %d 0 9 12 2" % nw,
                                                         "rbatch %d 0 11 12 0" % nw, "rbatch 40 %d 11 12 1" % (nw - 10), "rbatch 1 7 11 12 2", "rbatch 33 0 12 13 0"]
        wo, wcr, werr = run_impl(dh_, wd, ["reset"] + hist.config_lines(wa, wp, wadm) + wl, timeout=900)
        want = REPLAY.get("want") if REPLAY is not None else [nw, 0, 0, nw, 30, 0, 33]
        rep.cov["wide_rule_batches"] = {"entries": nw, "outputs": wo[1:]}
        if wcr or len(wo) < 1 + len(wl):
            rep.broken.append(("implementation-crash:rbatch", werr[-1500:], False))
        else:
            for l_, o_, w_ in zip(wl, wo[1:], want):
                m_ = re.search(r"A=(\d+)", o_)
                rep.count("rbatch|" + l_, True)
                if not m_ or int(m_.group(1)) != w_:
                    if m_ and int(m_.group(1)) > w_:
                        rep.violation("wide-batch-conflict-approved", "in a batch of %d entries, %d votes conflicting with votes approved just before were approved (%s)" % (nw, int(m_.group(1)) - w_, o_),
                                      {"rbatch": wl[:wl.index(l_) + 1], "want": want[:wl.index(l_) + 1]})
                    else:
                        rep.broken.append(("correspondence:rbatch(expected approvals)", json.dumps({"line": l_, "got": o_, "want_approved": w_}), False))
                    break
    if REPLAY is None or "scenario" in REPLAY:
        # histories with concurrently issued requests: keys with high watermarks are re-asked for signed targets while
        # other keys advance (judged order-free: no two released attestations of one key are slashable)
        dh = build_harness(wd)
        run_conc(rep, dh, wd, hist.interop_keys(dh), Rng(seed * 77 + 1), 3 if tier != "thorough" else 20, 0, 250 if tier != "thorough" else 600, [None, 2],
                 want_lin=False, n_cross=2 if tier != "thorough" else 12, cross_kind="att", steer_kinds=["deadline-rollback-att"])


def c02(rep, tier, seed, wd, replay):
    rep.cov["rule"] = ("histories of proposal requests mixed with other traffic (by name/key, boundary slots incl. >=2^63, restarts, "
                       "store faults); non-trivial = >=2 proposal signatures for one key or a refused proposal")
    rep.assumptions += ["badger: Update atomic; a failed write either landed or did not (both proved)"]
    prove(rep, "C02")
    sizes = tier_sizes(tier, (40, 40), (400, 120))
    opts = {"faults": True, "huge": True}

    def nontriv(h):
        rel = hist.released(h["ops"], h["impl"], h["accts"])
        ks = [r[1] for r in rel if r[0] == "prop"]
        return len(ks) != len(set(ks)) or any(op.startswith("prop") and "D" in hist.states_of(l)
                                              for op, l in zip(h["ops"], h["impl"]))
    def judge_header2(rep_, dh_, wd_, all_h):
        # (the Python header root used by generic_cross_histories is what the Lean model computes)
        from common import run_model
        hs2 = [h for h in all_h if "header2" in h]
        if hs2:
            h = hs2[0]
            slot, h2, dom_p = h["header2"]
            got = run_model(["proot %s" % h["ops"][1].split()[4], "sroot %s %s" % (h2, dom_p)])
            if len(got) != 2 or got[0].strip() != got[1].strip() or got[0].strip() == "-":
                raise Broken("harness:header-root", "the harness's header root differs from the model's: %r" % (got,))
        return judge_cross(rep_, dh_, wd_, all_h)
    run_hist_property(rep, tier, seed, wd, "C02", ("prop", "export", "restart", "twinprop"), opts, sizes,
                      judges=[judge_slash("C02"), judge_twin("C02"), judge_prior("C02"), judge_header2], nontrivial=nontriv,
                      extra_hist=lambda k_, r_: twin_histories("prop")(k_, r_) + legacy_histories("prop", build_harness(wd))(k_, r_)
                      + generic_cross_histories(k_, r_))
    # start-up on stores carried over from an earlier release (see startup_stage): what the first requests after a start record
    # must not be undone by anything else the service does while it starts
    if REPLAY is None or any(o.startswith("pause") for o in REPLAY.get("ops", [])):
        dh_s = build_harness(wd)
        startup_stage(rep, dh_s, wd, hist.interop_keys(dh_s), False)
    if REPLAY is None or "scenario" in REPLAY:
        # histories with concurrently issued requests: keys with high watermarks are re-asked for signed slots while
        # other keys advance (judged order-free: no two released proposals of one key share a slot)
        dh = build_harness(wd)
        run_conc(rep, dh, wd, hist.interop_keys(dh), Rng(seed * 77 + 2), 3 if tier != "thorough" else 20, 0, 250 if tier != "thorough" else 600, [None, 2],
                 want_lin=False, n_cross=2 if tier != "thorough" else 12, cross_kind="prop", steer_kinds=["deadline-rollback-prop"])


def judge_cross(rep, dh, wd, all_h):
    """what the released generic signatures actually sign: none may verify over the signing root of its data under
    a beacon-attester / beacon-proposer domain (the type prefixes with the request's own suffix and with the suffix or
    whole domain of every other entry of the same request), whatever the reply says the domain was"""
    from common import sh, run_model
    cand = []
    for hi, h in enumerate(all_h):
        for (k, key, data, sig, i, j, st) in hist.released(h["ops"], h["impl"], h["accts"]):
            if k != "sign" or key is None:
                continue
            f = h["ops"][i].split()
            items = f[4].split(";") if f[0] == "msign" else ["x," + f[4]]
            own = data.split(",")
            if len(own) < 2:
                continue
            d_hex = "" if own[0] in ("-", ".") else own[0]
            r_hex = "" if own[1] in ("-", ".") else own[1]
            # whatever the field lengths: if data||domain is 64 bytes, the bytes signed may be the signing root of
            # (first 32 bytes, last 32 bytes) — a slashable message if those last 32 bytes are an attester/proposer domain
            cat = r_hex + d_hex
            if len(cat) == 128 and len(r_hex) != 64 and bytes.fromhex(cat[64:72]) in (DOM_ATT, DOM_PROP):
                cand.append((hi, i, j, key, sig, cat[:64], cat[64:]))
            if len(own[1]) != 64:
                continue
            doms = set()
            for it in items:
                p_ = it.split(",")
                if len(p_) >= 2 and len(p_[1]) == 64:
                    doms.add(p_[1][8:])
            for suf in doms:
                for t in (DOM_ATT, DOM_PROP):
                    cand.append((hi, i, j, key, sig, own[1], t.hex() + suf))
            # … and over the signing root of ANOTHER entry of the same request (its data under its domain), when that
            # entry's domain is a beacon-attester / beacon-proposer one: verdict and data of different entries must not mix
            for e_, it in enumerate(items):
                p_ = it.split(",")
                if f[0] == "msign" and e_ != j and len(p_) >= 3 and len(p_[1]) == 64 and len(p_[2]) == 64 \
                        and bytes.fromhex(p_[1][:8]) in (DOM_ATT, DOM_PROP):
                    cand.append((hi, i, j, key, sig, p_[2], p_[1]))
    if not cand:
        rep.cov["generic_signatures_checked_against_slashable_domains"] = 0
        return False
    roots = run_model(["sroot %s %s" % (c[5], c[6]) for c in cand])
    rc, out, err = sh([dh, "sigcheck"], input="\n".join("%s %s %s" % (c[3].hex(), r.strip(), c[4]) for c, r in zip(cand, roots)) + "\n")
    rep.cov["generic_signatures_checked_against_slashable_domains"] = len(cand)
    for c, o in zip(cand, out.splitlines()):
        if o.strip() == "ok":
            hi, i, j = c[0], c[1], c[2]
            rep.violation("generic-signature-under-slashable-domain",
                          "a generic signing endpoint returned a signature that verifies over the data's signing root under a beacon-attester/proposer domain",
                          {"config": all_h[hi]["cfg"], "ops": all_h[hi]["ops"][:i + 1], "position": j, "domain": c[6]})
            return True
    return False



def c05(rep, tier, seed, wd, replay):
    rep.cov["rule"] = ("histories dominated by generic sign / multisign requests and cross-domain attestation/proposal requests: "
                       "every known 4-byte domain type x zero/random suffix, near misses, short and nil domains; admin lists "
                       "empty/one/many; source absent/listed/unlisted/alternative textual form; non-trivial = contains a request "
                       "under a slashable or exit domain type")
    rep.assumptions += ["domain type constants live in go-eth2-types (a dependency), the model's values are validated by this engine"]
    prove(rep, "C05")
    sizes = tier_sizes(tier, (40, 40), (400, 100))
    opts = {"faults": False, "huge": False,
            "weights": [("att", 14), ("atts", 10), ("prop", 14), ("sign", 30), ("msign", 24), ("export", 6), ("restart", 2)],
            "admins": [[], ["10.0.0.1"], ["10.0.0.1", "::1", "192.168.1.1"]]}

    def lines(h):
        for (k, key, data, sig, i, j, st) in hist.released(h["ops"], h["impl"], h["accts"]):
            dom = data.split(",")[0]
            if k == "sign":
                ip = h["ops"][i].split()[2]
                yield ("jsign %s %s" % (ip if ip != "-" else ".", dom), (i, j, h["ops"][i][:200]))
            else:
                yield ("jdom %s %s" % (k, dom), (i, j, h["ops"][i][:200]))

    def judge(rep, dh, wd, all_h):
        bad = judge_lines(rep, all_h, lines, "released_signatures_judged")
        if bad:
            hi, i, j, op, verdict = bad[0]
            rep.violation("domain-" + verdict, "a signature was released that the Lean predicate forbids: " + verdict,
                          {"config": all_h[hi]["cfg"], "ops": all_h[hi]["ops"][:i + 1], "position": j})
            return True
        return False

    def nontriv(h):
        for op in h["ops"]:
            f = op.split()
            if f[0] in ("sign", "msign"):
                blob = f[4]
                if any(x in blob for x in ("01000000", "00000000", "04000000")):
                    return True
        return False
    run_hist_property(rep, tier, seed, wd, "C05", SIGN_KINDS + ("export",), opts, sizes, judges=[judge, judge_cross, judge_sig],
                      nontrivial=nontriv, corpus=False, extra_hist=c05_corpus)


def c05_corpus(keys, rng):
    accts, perms, _ = hist.std_config(keys, nacct=5)
    H = []
    a0 = accts[0]
    n0 = "n:" + hx(a0.path)
    r32 = (bytes([0xA1]) * 32).hex()
    for admins in ([], ["10.0.0.1"]):
        cfg = hist.config_lines(accts, perms, admins)
        ops = []
        for pfx in (DOM_ATT, DOM_PROP, DOM_EXIT, DOM_RANDAO, bytes([0, 0, 0, 1]), bytes([1, 0, 0, 1]), bytes([4, 0, 0, 1])):
            for suffix in (bytes(28), bytes([0xFF]) * 28):
                dom = (pfx + suffix).hex()
                for ip in ("-", hx("10.0.0.1"), hx("10.0.0.2")):
                    ops.append("sign %s %s %s %s,%s -" % (hx("client1"), ip, n0, dom, r32))
                ops.append("msign %s %s - %s,%s,%s;n:%s,%s,%s" % (hx("client1"), hx("10.0.0.1"), n0, (DOM_RANDAO + bytes(28)).hex(), r32,
                                                                  hx(accts[1].path), dom, r32))
                ops.append(att_line("client1", n0, 1, len(ops) + 5, 0, dom=pfx + suffix))
                ops.append(prop_line("client1", n0, len(ops) + 5, 0, dom=pfx + suffix))
        # data and domain whose lengths are not 32/32 but whose concatenation is root||slashable-domain
        for pfx in (DOM_ATT, DOM_PROP):
            full = pfx + bytes([0x11]) * 28
            for k in (1, 4, 16, 28, 31):
                dat, dm = (bytes([0xA1]) * 32 + full[:k]).hex(), full[k:].hex()
                ops.append("sign %s %s %s %s,%s -" % (hx("client1"), hx("10.0.0.1"), n0, dm, dat))
                ops.append("msign %s %s - %s,%s,%s;n:%s,%s,%s" % (hx("client1"), hx("10.0.0.1"), n0, dm, dat, hx(accts[1].path), (DOM_RANDAO + bytes(28)).hex(), r32))
            for k in (4, 16):
                dat, dm = (bytes([0xA1]) * (32 - k)).hex(), ((bytes([0xA1]) * k) + full).hex()
                ops.append("sign %s %s %s %s,%s -" % (hx("client1"), hx("10.0.0.1"), n0, dm, dat))
        ops.append("export")
        H.append({"cfg": cfg, "ops": ops, "accts": accts, "opts": {}})
    # through the real gRPC API (TLS, interceptors, handlers): the source address is the REMOTE end of the connection.
    # The server end is always 127.0.0.1; requests come from 127.0.0.1 / .2 / .3, admin lists name one, two or none of them.
    for admins in (["127.0.0.1"], ["127.0.0.2"], ["127.0.0.3", "127.0.0.2"], []):
        cfg = ["viagrpc"] + hist.config_lines(accts, perms, admins)
        ops = []
        for pfx in (DOM_EXIT, DOM_RANDAO, DOM_ATT):
            dom = (pfx + bytes(28)).hex()
            for ip in ("127.0.0.1", "127.0.0.2", "127.0.0.3"):
                ops.append("sign %s %s %s %s,%s -" % (hx("client1"), hx(ip), n0, dom, r32))
                ops.append("msign %s %s - %s,%s,%s;n:%s,%s,%s" % (hx("client1"), hx(ip), n0, (DOM_RANDAO + bytes(28)).hex(), r32,
                                                                  hx(accts[1].path), dom, r32))
        H.append({"cfg": cfg, "ops": ops, "accts": accts, "opts": {}})
    return H


def c06_faults(keys, rng):
    """Every single fault at every site, for every request kind and batch position (enumerated)."""
    accts, perms, admins = hist.std_config(keys, nacct=5)
    cfg = hist.config_lines(accts, perms, admins)
    ns = ["n:" + hx(a.path) for a in accts[:4]]
    r32 = (bytes([0xA1]) * 32).hex()
    H = []
    dom_r = (DOM_RANDAO + bytes(28)).hex()
    # "b": badger refuses writes (the state its Close puts it in first) while reads work; "c": shutdown really begins
    # (context cancelled, store closing) while the request stands at its state write, and the store is reopened afterwards
    for fault in ["f0", "s", "S", "g0", "b", "c", "u"]:
        H.append({"cfg": cfg, "accts": accts, "opts": {}, "ops": [
            att_line("client1", ns[0], 1, 2, 0), att_line("client1", ns[0], 2, 3, 0, faults=fault),
            att_line("client1", ns[0], 2, 3, 1), att_line("client1", ns[0], 3, 4, 1), "export"]})
        H.append({"cfg": cfg, "accts": accts, "opts": {}, "ops": [
            prop_line("client1", ns[0], 1, 0), prop_line("client1", ns[0], 2, 0, faults=fault),
            prop_line("client1", ns[0], 2, 1), prop_line("client1", ns[0], 3, 1), "export"]})
    H.append({"cfg": cfg, "accts": accts, "opts": {}, "ops": [
        "sign %s - %s %s,%s g0" % (hx("client1"), ns[0], dom_r, r32), "sign %s - %s %s,%s -" % (hx("client1"), ns[0], dom_r, r32)]})
    H.append({"cfg": ["nocache"] + cfg, "accts": accts, "opts": {}, "ops": [
        "sign %s - %s %s,%s u" % (hx("client1"), ns[0], dom_r, r32), "sign %s - %s %s,%s -" % (hx("client1"), ns[0], dom_r, r32),
        "msign %s - u %s" % (hx("client1"), ";".join("%s,%s,%s" % (ns[i], dom_r, r32) for i in range(3))),
        "sign %s - k:%s %s,%s u" % (hx("client1"), accts[1].pk.hex(), dom_r, r32)]})
    for n in (1, 2, 3, 4):
        for pos in range(n):
            for fault in ["f%d" % pos, "s", "S", "g%d" % pos] + (["b", "u"] if pos == 0 else []) + (["c"] if n == 1 else []):
                # ("c" only for one-entry batches: a multi-entry badger WriteBatch flushed into a closing store waits for ever
                #  inside badger — a shutdown-window hang that releases nothing, outside C06)
                items = ";".join(att_item(ns[i], 1, 2, i % 4) for i in range(n))      # distinct data per position
                items2 = ";".join(att_item(ns[i], 2, 3, (i + 1) % 4) for i in range(n))
                H.append({"cfg": cfg, "accts": accts, "opts": {}, "ops": [
                    "atts %s - %s %s" % (hx("client1"), fault, items), "atts %s - - %s" % (hx("client1"), items),
                    "atts %s - - %s" % (hx("client1"), items2), "export"]})
            ms = ";".join("%s,%s,%s" % (ns[i], dom_r, (bytes([0xA0 + i]) * 32).hex()) for i in range(n))
            H.append({"cfg": cfg, "accts": accts, "opts": {}, "ops": ["msign %s - g%d %s" % (hx("client1"), pos, ms)]})
        # "r<k>": the ruler hands the signer only the first k of its n verdicts (dirk's own ruler never does; the signer must not
        # sign a position nobody ruled on) — alone, and together with a signing failure inside the answered part
        for k in range(1, n):
            items = ";".join(att_item(ns[i], 1, 2, i % 4) for i in range(n))
            items2 = ";".join(att_item(ns[i], 2, 3, (i + 1) % 4) for i in range(n))
            ms = ";".join("%s,%s,%s" % (ns[i], dom_r, (bytes([0xA0 + i]) * 32).hex()) for i in range(n))
            for extra in ("", ",g0"):
                H.append({"cfg": cfg, "accts": accts, "opts": {}, "ops": [
                    "atts %s - r%d%s %s" % (hx("client1"), k, extra, items), "atts %s - - %s" % (hx("client1"), items),
                    "atts %s - - %s" % (hx("client1"), items2), "export",
                    "msign %s - r%d%s %s" % (hx("client1"), k, extra, ms), "msign %s - - %s" % (hx("client1"), ms)]})
    # undecodable / truncated / legacy records on disk
    pk = accts[0].pk
    raws = [
        (pk + b"\x02", bytes([1]) + bytes(10)),                 # version 1, wrong length
        (accts[1].pk + b"\x02", bytes([9, 1, 2, 3])),            # unknown version, not a gob stream
        (accts[2].pk + b"\x03", bytes([1]) + bytes(3)),          # proposal record, wrong length
        (accts[3].pk + b"\x03", bytes([0x7f, 0x00])),            # garbage
    ]
    cfgr = hist.config_lines(accts, perms, admins, raws)
    H.append({"cfg": cfgr, "accts": accts, "opts": {}, "ops": [
        att_line("client1", ns[0], 1, 2, 0), att_line("client1", ns[1], 1, 2, 0), att_line("client1", ns[2], 1, 2, 0),
        prop_line("client1", ns[2], 5, 0), prop_line("client1", ns[3], 5, 0), prop_line("client1", ns[0], 5, 0),
        "atts %s - - %s" % (hx("client1"), ";".join([att_item(ns[2], 2, 3, 0), att_item(ns[0], 2, 3, 0)])),
        "atts %s - - %s" % (hx("client1"), ";".join([att_item(ns[2], 3, 4, 0), att_item(ns[3], 3, 4, 0)])),
        "export"]})
    return H


def c06(rep, tier, seed, wd, replay):
    rep.cov["rule"] = ("enumerated: every single fault (state read error, state write error landed/not landed, signing error) at "
                       "every site for every request kind and every batch position of batches 1..4, undecodable/truncated records "
                       "on disk; plus seeded histories with a high multi-fault rate, locked accounts, unknown accounts, refused "
                       "clients, malformed data; non-trivial = history containing an injected fault or a non-SUCCEEDED position")
    rep.assumptions += ["faults are injected through the verif hooks in Store.Fetch/Store/BatchStore and signRoot; account lookup, "
                        "permission and unlock failures arise from real configurations (unknown account, refused client, locked "
                        "account with unknown passphrase)"]
    prove(rep, "C06")
    sizes = tier_sizes(tier, (30, 40), (300, 100))
    opts = {"faults": True, "fault_rate": 0.45, "huge": True}

    def corrupt_keys(h):
        """(pubkey, action) pairs whose on-disk record the configuration made undecodable"""
        bad = set()
        for l in h["cfg"]:
            f = l.split()
            if f[0] == "raw":
                k, v = bytes.fromhex(f[1]), bytes.fromhex(f[2])
                ok = (v[:1] == b"\x01" and len(v) == (17 if k[-1] == 2 else 9)) or (v[:1] != b"\x01" and len(v) > 20)
                if not ok:
                    bad.add((k[:48], k[-1]))
        return bad

    def lines(h):
        bad = corrupt_keys(h)
        for i, op in enumerate(h["ops"]):
            f = op.split()
            if f[0] in SIGN_KINDS and i < len(h["impl"]):
                poss = h["impl"][i].split()
                for j, pos in enumerate(poss):
                    st = pos.split(":")[0]
                    yield ("jiff %s %d" % (st, 1 if ":" in pos else 0), (i, j, op[:200]))
                # the hashing step fails for a request whose domain (or generic data root) is not 32 bytes: no signature
                def blen(x):
                    return -1 if x in ("-",) else (0 if x == "." else len(x) // 2)
                if f[0] in ("att", "prop", "sign"):
                    reqs = [f[4].split(",")]
                elif f[0] in ("atts", "msign"):
                    reqs = [it.split(",")[1:] for it in f[4].split(";")]
                else:
                    reqs = []
                for j, rq in enumerate(reqs):
                    if j < len(poss) and rq:
                        malformed = blen(rq[0]) != 32 or (f[0] in ("sign", "msign") and len(rq) > 1 and blen(rq[1]) != 32)
                        if malformed:
                            yield ("jfault %d" % (1 if ":" in poss[j] else 0), (i, j, op[:200]))
                # positions with a failing step on their path must not carry a signature
                fl = f[5] if f[0] in ("att", "prop", "sign") else (f[3] if f[0] in ("atts", "msign") else "-")
                toks = [] if fl == "-" else fl.split(",")
                def unruled(toks_, j_):
                    # "r<k>": the ruler gave no verdict for positions k, k+1, …
                    return any(t[0] == "r" and j_ >= int(t[1:]) for t in toks_)
                if f[0] in ("att", "prop"):
                    key = hist.key_of_addr(f[3], h["accts"])
                    onpath = any(t[0] in "fsSgbcu" for t in toks) or (key, 2 if f[0] == "att" else 3) in bad
                    if onpath and poss:
                        yield ("jfault %d" % (1 if ":" in poss[0] else 0), (i, 0, op[:200]))
                elif f[0] == "atts":
                    items = f[4].split(";")
                    keys = [hist.key_of_addr(it.split(",")[0], h["accts"]) for it in items]
                    whole = any(t[0] in "fsSbcu" for t in toks) or (len(items) > 1 and any((k, 2) in bad for k in keys))
                    for j, pos in enumerate(poss):
                        onpath = whole or ("g%d" % j) in toks or (j < len(keys) and (keys[j], 2) in bad) or unruled(toks, j)
                        if onpath:
                            yield ("jfault %d" % (1 if ":" in pos else 0), (i, j, op[:200]))
                elif f[0] in ("sign", "msign"):
                    for j, pos in enumerate(poss):
                        if ("g%d" % j) in toks or "u" in toks or unruled(toks, j):
                            yield ("jfault %d" % (1 if ":" in pos else 0), (i, j, op[:200]))

    def judge(rep, dh, wd, all_h):
        bad = judge_lines(rep, all_h, lines, "response_positions_judged")
        if bad:
            hi, i, j, op, verdict = bad[0]
            if verdict == "SIGNED-DESPITE-FAULT":
                rep.violation("signed-despite-fault", "a signature was returned although a step on the request's path failed "
                              "(injected fault or undecodable record)",
                              {"config": all_h[hi]["cfg"], "ops": all_h[hi]["ops"][:i + 1], "position": j})
            else:
                rep.violation("not-closed", "a response position violates signature <-> SUCCEEDED",
                              {"config": all_h[hi]["cfg"], "ops": all_h[hi]["ops"][:i + 1], "position": j})
            return True
        # shape: one position per request
        for hi, h in enumerate(all_h):
            for i, op in enumerate(h["ops"]):
                f = op.split()
                if f[0] in ("atts", "msign") and i < len(h["impl"]):
                    if len(h["impl"][i].split()) != len(f[4].split(";")):
                        rep.violation("shape", "response does not have one position per request",
                                      {"config": h["cfg"], "ops": h["ops"][:i + 1]})
                        return True
        return False

    def nontriv(h):
        return any(op.split()[0] in SIGN_KINDS and (set(hist.states_of(l)) - {"S"}) for op, l in zip(h["ops"], h["impl"]))
    def extra(keys, rng):
        # the same through the real gRPC API: the handlers must copy a signature only under SUCCEEDED
        return c06_faults(keys, rng) + grpc_histories(rng, keys, *tier_sizes(tier, (10, 30), (100, 60)))
    # a refused permission check is a failed step like any other: whatever carries a signature must be granted by the
    # specification to that client for the account whose key signed
    run_hist_property(rep, tier, seed, wd, "C06", SIGN_KINDS + ("export",), opts, sizes,
                      judges=[judge, permission_judge("signed-despite-refused-permission", "a signature was returned although the permission check refuses the request")],
                      nontrivial=nontriv, corpus=False, extra_hist=extra)
    rep.cov["exhaustive"] = False


THEOREMS.update({
    "C01": ("Dirk.Props.C01", ["Dirk.C01_monotone", "Dirk.C01", "Dirk.C01_index", "Dirk.C01_with_imports", "Dirk.C01_lowering_import_counterexample",
                               "Dirk.C01_legacy_counterexample", "Dirk.C01_kernel_is_source"]),
    "C02": ("Dirk.Props.C02", ["Dirk.C02_increasing", "Dirk.C02", "Dirk.C02_with_imports", "Dirk.C02_lowering_import_counterexample",
                               "Dirk.C02_legacy_counterexample", "Dirk.C02_kernel_is_source", "Dirk.facts_store_options"]),
})

def run_perm_configs(rep, dh, wd, configs, label="perms"):
    """configs: list of (cfg_lines, probe_lines). Runs impl+model, diffs, judges with Spec.firstBearing."""
    from common import run_impl, run_model
    if REPLAY is not None:
        configs = [(REPLAY["config"], [REPLAY["probe"]])] if "probe" in REPLAY and "config" in REPLAY else []
    # hypothesis ShapeOK of theorem C07_entry_matches_spec, evaluated for every pattern in use: the parser gives
    # regexify(pattern) the anchored shape around the parse of the pattern (not so for e.g. `a)(b`); the
    # specification judge is applied only to configurations where it holds
    pats = []
    for cfg, _ in configs:
        for l in cfg:
            f = l.split()
            if f[0] == "perm":
                path = "" if f[2] in (".", "-") else bytes.fromhex(f[2]).decode("utf-8", "replace")
                w, _, a = path.partition("/")
                pats += [w, a]
    upats = sorted(set(pats))
    shape = dict(zip(upats, [o.strip() for o in run_model(["jshape %s" % hx(p_) for p_ in upats])])) if upats else {}
    rep.cov["patterns_shape_hypothesis_evaluated"] = len(upats)
    rep.cov["patterns_shape_hypothesis_fails"] = sum(1 for v in shape.values() if v != "ok")

    def shape_ok(cfg):
        for l in cfg:
            f = l.split()
            if f[0] == "perm":
                path = "" if f[2] in (".", "-") else bytes.fromhex(f[2]).decode("utf-8", "replace")
                w, _, a = path.partition("/")
                if shape.get(w) != "ok" or shape.get(a) != "ok":
                    return False
        return True
    lines = []
    for cfg, probes in configs:
        lines.append("reset")
        lines += cfg + probes
    impl, crashed, err = run_impl(dh, wd, lines)
    if crashed:
        rep.broken.append(("implementation-crash:" + label, err, False))
    model = run_model(lines)
    # judge input
    jl, jidx = [], []
    pos = 0
    first_bad = None
    allowed = refused = 0
    for ci, (cfg, probes) in enumerate(configs):
        jl.append("reset")
        jl += [l for l in cfg if l != "begin"]
        ib, mb = (impl[pos] if pos < len(impl) else "<missing>"), (model[pos] if pos < len(model) else "<missing>")
        if ib != mb and first_bad is None:
            first_bad = (ci, "begin", ib, mb)
        rep.dist("checker_construction", ib)
        pos += 1
        for pr in probes:
            i_out = impl[pos] if pos < len(impl) else "<missing>"
            m_out = model[pos] if pos < len(model) else "<missing>"
            pos += 1
            if i_out != m_out and first_bad is None:
                first_bad = (ci, pr, i_out, m_out)
            if ib == "ok" and i_out in ("0", "1") and shape_ok(cfg):
                f = pr.split()
                jl.append("jcheck %s %s %s %s" % (f[1], f[2], f[3], i_out))
                jidx.append((ci, pr))
                allowed += i_out == "1"
                refused += i_out == "0"
            rep.count(str(cfg) + pr, True)
    rep.dist("decision", "allowed", allowed)
    rep.dist("decision", "refused", refused)
    out = run_model(jl)
    found = False
    for (ci, pr), o in zip(jidx, out):
        if o.strip() != "ok":
            cfg, probes = configs[ci]
            # minimise the configuration: drop perm lines while the judge still objects
            def still(cfg2):
                i2, _, _ = run_impl(dh, wd, ["reset"] + cfg2 + [pr])
                if len(i2) < 2 or i2[0] != "ok":
                    return False
                f = pr.split()
                o2 = run_model(["reset"] + [l for l in cfg2 if l != "begin"] + ["jcheck %s %s %s %s" % (f[1], f[2], f[3], i2[1])])
                return bool(o2) and o2[0].strip() != "ok"
            perm_lines = [l for l in cfg if l != "begin"]
            from common import ddmin
            small = ddmin(perm_lines, lambda sub: still(sub + ["begin"]), max_trials=40) if len(perm_lines) > 1 else perm_lines
            rep.violation("permission-" + o.strip(), "checker decision differs from the Lean specification firstBearing: " + o.strip(),
                          {"config": small + ["begin"], "probe": pr,
                           "decoded": {"perms": [[bytes.fromhex(x).decode() if x not in ("-", ".") else "" for x in l.split()[1:3]] +
                                                 [[bytes.fromhex(o).decode() if o != "." else "" for o in l.split()[3].split(",")] if l.split()[3] != "-" else []]
                                                 for l in small if l.startswith("perm ")],
                                       "probe": [bytes.fromhex(x).decode() if x != "." else "" for x in pr.split()[1:]]}})
            found = True
            break
    rep.cov["decisions_judged"] = len(jidx)
    if first_bad is not None:
        ci, pr, io, mo = first_bad
        rep.broken.append(("correspondence:%s(model Check vs checker/static)" % label,
                           json.dumps({"config": configs[ci][0], "probe": pr, "impl": io, "model": mo}), found))
    return found


PERM_OPNAME = {"att": "Sign beacon attestation", "prop": "Sign beacon proposal", "sign": "Sign"}


def _judge_released(rep, dh, wd, all_h, vkey, vtext):
    """every signature the service released must be one the SPECIFICATION grants to that client for the account the
    request resolved to (the account whose key signed), whatever name the request carried"""
    from common import run_model
    jl, jm = [], []
    for hi, h in enumerate(all_h):
        jl += ["reset"] + [l for l in h["cfg"] if l.split()[0] in ("perm", "permclient")]
        jm.append(None)
        byk = {a.pk: a for a in h["accts"]}
        for (k, key, data, sig, i, j, st) in hist.released(h["ops"], h["impl"], h["accts"]):
            if key is None or key not in byk:
                continue
            cl = h["ops"][i].split()[1]
            jl.append("jcheck %s %s %s 1" % (cl, hx(byk[key].path), hx(PERM_OPNAME[k])))
            jm.append((hi, i, j))
        # account-manager requests that were GRANTED: the specification must grant that operation on that account
        for i, op in enumerate(h["ops"]):
            f = op.split()
            if f[0] in ("lockacct", "unlockacct") and i < len(h["impl"]) and h["impl"][i].strip() == "S":
                jl.append("jcheck %s %s %s 1" % (f[1], f[2], hx("Lock account" if f[0] == "lockacct" else "Unlock account")))
                jm.append((hi, i, 0))
    out = run_model(jl)
    outs = [o for o in out if o.strip()]
    res = [o.strip() for o in outs]
    # reset lines print nothing; align by counting only judged lines
    judged = [m for m in jm if m is not None]
    rep.cov["released_signatures_judged_against_permissions"] = len(judged)
    for m, o in zip(judged, res):
        if o != "ok":
            hi, i, j = m
            rep.violation(vkey, vtext + " (%s)" % o,
                          {"config": all_h[hi]["cfg"], "ops": all_h[hi]["ops"][:i + 1], "position": j})
            return True
    return False


def permission_judge(vkey, vtext):
    return lambda rep, dh, wd, all_h: _judge_released(rep, dh, wd, all_h, vkey, vtext)


def acctmgr_histories(keys, rng, n=6, n_ops=18):
    """histories in which accounts are locked and unlocked through the account manager between signing requests:
    Lock/Unlock are granted by the permission on the account ('Lock account' / 'Unlock account'); an explicit Unlock must
    present the account's own passphrase (wrong ones are tried only on accounts nothing has touched yet: the wallet library
    keeps a decrypted key for the life of the process); an account the unlocker cannot open signs once it has been unlocked."""
    H = []
    for _ in range(n):
        r = rng.fork()
        accts, perms, admins = hist.std_config(keys, nacct=5)
        perms = perms + [("clientlock", "Wallet 1", ["Lock account", "Unlock account"]), ("clientlock", "Wallet 2/Account 4", ["Unlock account"])]
        cfg = ["nocache"] + hist.config_lines(accts, perms, admins)
        g = hist.HistGen(r, accts, {"faults": False, "huge": False})
        passes = {a.path: ("unknown-passphrase" if not a.unlockable else ("pass2" if getattr(a, "pass2", False) else "pass")) for a in accts}
        ops = []
        for a in r.shuffle(accts)[:3]:
            ops.append("unlockacct %s %s %s" % (hx(r.choice(["client1", "clientlock", "client3"])), hx(a.path), hx(r.choice(["wrong", "pass3", "Pass"]))))
        for _ in range(n_ops):
            k = r.weighted([("sign", 10), ("lock", 3), ("unlock", 3), ("locked-att", 3)])
            a = r.choice(accts)
            if k == "lock":
                ops.append("lockacct %s %s" % (hx(r.choice(["client1", "clientlock", "client3", "nobody", "client2"])), hx(r.choice([a.path, "Wallet 1/Nope", "Wallet 1"]))))
            elif k == "unlock":
                ops.append("unlockacct %s %s %s" % (hx(r.choice(["client1", "clientlock", "clientlock", "client3", "client2"])), hx(a.path), hx(passes[a.path])))
            elif k == "locked-att":
                la = [x for x in accts if not x.unlockable][0]
                ops.append("att %s - n:%s %s -" % (hx("client1"), hx(la.path), g.att_data(la, "att")))
            else:
                ops.append(g.op())
        ops.append("export")
        H.append({"cfg": cfg, "ops": ops, "accts": accts, "opts": {}})
    return H


def c07(rep, tier, seed, wd, replay):
    import perms
    rep.cov["rule"] = ("permission configurations (1-3 clients x 1-5 ordered entries, wallet/account patterns from a grammar: literals, "
                       "alternation, prefixes/suffixes, classes, \\d, optional, groups, own anchors, (?i), mixed case; operation lists "
                       "with All/None/op/~op in any case and order) x probes (names derived from the patterns: exact, extended, "
                       "case-flipped, empty account; all 9 operations; listed/unknown/empty clients); every (config, probe) pair is "
                       "counted; plus service-level histories with refused clients (state must stay unchanged)")
    rep.assumptions += ["Go regexp (RE2) is modelled for the fragment the generator stays in; Unicode case folding is ASCII-only in the model",
                        "main.go builds each client's entry list by ranging over a Go map: the property and the model take the ordered list handed to the checker"]
    prove(rep, "C07")
    dh = build_harness(wd)
    rng = Rng(seed * 7919 + 7)
    ncfg, nprobe = tier_sizes(tier, (250, 60), (5000, 120))
    configs = []
    # corpus first: the alternation defect and friends
    for path, probes in [("Wallet1|Wallet2/Acc1|Acc2", ["Wallet10/Acc1", "xWallet2/Acc1", "Wallet1/Acc10", "Wallet1/xAcc2", "Wallet1/Acc1", "wallet2/ACC2"]),
                         ("^Wallet1|Wallet2$/Acc1", ["Wallet1x/Acc1", "xWallet2/Acc1", "Wallet2/Acc1"]),
                         ("Wallet1/Acc1$|^Acc2", ["Wallet1/xAcc1", "Wallet1/Acc2x", "Wallet1/Acc2"]),
                         ("Wallet1", ["Wallet1/anything", "Wallet10/x", "Wallet1/"]),
                         ("Wallet1/", ["Wallet1/anything", "Wallet1"])]:
        cfg = perms.config_lines([("client1", path, ["~Sign", "All"])])
        pr = ["check %s %s %s" % (hx("client1"), hx(a), hx(o)) for a in probes for o in ("Sign", "Access account")]
        configs.append((cfg, pr))
    for _ in range(ncfg):
        r = rng.fork()
        clients, cfg, bad = perms.gen_config(r)
        configs.append((perms.config_lines(cfg), perms.gen_probes(r, clients, cfg, nprobe if not bad else 3)))
    rep.sample({"config": [[bytes.fromhex(x).decode() if x not in ("-", ".") else "" for x in l.split()[1:3]] for l in configs[-1][0] if l.startswith("perm ")],
                "probes": configs[-1][1][:2]})
    run_perm_configs(rep, dh, wd, configs)
    rep.cov["traces_validated_against_impl"] = len(configs)
    # service level: refused requests leave all state unchanged (model agreement incl. exports)
    sizes = tier_sizes(tier, (12, 30), (100, 80))
    opts = {"faults": False, "huge": False}
    OPNAME = {"att": "Sign beacon attestation", "prop": "Sign beacon proposal", "sign": "Sign"}

    judge_released = permission_judge("signature-released-without-permission", "a signature was released for an account the client's permissions do not grant")
    # from the configuration file to the checker: main.go hands each (client, path) entry's operation list to the checker; the
    # checker's answer depends on the ORDER of that list (first bearing item decides), so the list must arrive as written.
    # The built dirk binary's --show-permissions prints what main.go parsed (it shares that code with the daemon's start-up).
    if REPLAY is None or "permissions_yaml" in REPLAY:
        from common import sh as _sh
        dbin = build_dirk(wd)
        r_ = rng.fork()
        OPS_ = ["All", "None", "Sign", "~Sign", "Sign beacon attestation", "~Sign beacon attestation", "Sign beacon proposal", "~Sign beacon proposal",
                "Access account", "~Access account", "Create account", "Lock wallet", "~Unlock account"]
        for ci in range(tier_sizes(tier, 6, 60)):
            if REPLAY is not None:
                ytxt = REPLAY["permissions_yaml"]
                cfgp = None
            else:
                cfgp = {}
                for cl in ["client%d" % q for q in range(1 + r_.below(3))]:
                    cfgp[cl] = {}
                    for pa in r_.shuffle(["Wallet 1", "Wallet 2/Acc.*", "wallet3/x|y", "W4"])[:1 + r_.below(3)]:
                        cfgp[cl][pa] = r_.choice([["~Sign beacon proposal", "All"], ["None", "All"], ["~Sign", "Sign"], ["Sign", "~Sign", "Access account", "Sign"]] +
                                                 [[r_.choice(OPS_) for _ in range(1 + r_.below(5))] for _ in range(3)])
                ytxt = "permissions:\n" + "".join("  %s:\n" % cl + "".join("    %s: %s\n" % (json.dumps(pa), json.dumps(ops)) for pa, ops in pm.items()) for cl, pm in cfgp.items())
            d_ = os.path.join(wd, "showperm-%d" % ci)
            os.makedirs(d_, exist_ok=True)
            open(os.path.join(d_, "dirk.yml"), "w").write(ytxt)
            rc_, o_, e_ = _sh([dbin, "--base-dir", d_, "--show-permissions"], timeout=120)
            got = {}
            cur = None
            for l in o_.splitlines():
                m1 = re.match(r'Permissions for "(.*)":', l)
                m2 = re.match(r' - accounts matching the path "(.*)" can carry out (all operations|operations (.*))$', l)
                if m1:
                    cur = m1.group(1)
                elif m2 and cur is not None:
                    got[(cur, m2.group(1))] = ["All"] if m2.group(2) == "all operations" else m2.group(3).split(", ")
            if REPLAY is not None:
                cfgp = REPLAY["expected"]
            rep.count("showperm|" + ytxt, True)
            bad_ = None
            for cl, pm in cfgp.items():
                for pa, ops in pm.items():
                    g_ = got.get((cl.lower(), pa.lower()))
                    if g_ != ops and bad_ is None:
                        bad_ = (cl, pa, ops, g_)
            if rc_ != 0:
                rep.broken.append(("tie:show-permissions(the dirk binary did not print the permissions)", (o_ + e_)[-800:], False))
                break
            if bad_:
                rep.violation("permissions-reordered-by-configuration-parsing", "the operation list main.go hands to the checker for %r / %r is %r, the configuration says %r (order decides)" % (bad_[0], bad_[1], bad_[3], bad_[2]),
                              {"permissions_yaml": ytxt, "expected": cfgp, "parsed": {"%s|%s" % k_: v_ for k_, v_ in got.items()}})
                break
            if REPLAY is not None:
                break
        rep.cov["configurations_through_main_go"] = ci + 1
    # listings are served operations too ('Access account'): nothing may be listed that the specification does not grant
    # (several listings per scenario: the lister walks Go maps, whose order changes from call to call)
    import listing
    from common import run_impl, run_model
    lkeys = hist.interop_keys(dh)
    lscen = [listing.gen_scenario(rng.fork(), lkeys) for _ in range(tier_sizes(tier, 40, 400))]
    ll = []
    for cfg_, ops_, _ in lscen:
        ll += ["reset"] + cfg_ + [o for o in ops_ if o.startswith("list ") for _ in range(3)]
    limpl, lcrashed, lerr = run_impl(dh, wd, ll)
    if lcrashed:
        rep.broken.append(("implementation-crash:list", lerr[-1500:], False))
    else:
        jl, jm, pos = [], [], 0
        for cfg_, ops_, _ in lscen:
            lops = [o for o in ops_ if o.startswith("list ") for _ in range(3)]
            seg = limpl[pos + 1:pos + 1 + len(lops)]
            pos += 1 + len(lops)
            jl += ["reset"] + [l for l in cfg_ if l.split()[0] in ("acct", "perm", "permclient", "wallet")] + ["begin"]
            jm.append(None)
            for o, io in zip(lops, seg):
                if io.startswith("S"):
                    f = o.split()
                    jl.append("jlist %s %s %s" % (f[1], f[2], io.split()[1] if len(io.split()) > 1 else "-"))
                    jm.append((cfg_, o, io))
        jo = run_model(jl)
        rep.cov["listings_judged_against_permissions"] = sum(1 for m in jm if m is not None)
        for m, o in zip(jm, jo):
            if m is not None and o.startswith("LISTED-NOT-ALLOWED"):
                rep.violation("listed-without-permission", "a listing shows an account the client's permissions do not grant access to",
                              {"config": m[0], "ops": [m[1]] * 3, "impl": m[2]})
                break
    # account CREATION is a served operation too ('Create account'): the account that comes into existence must be one the
    # specification lets this client create — under the name it now HAS (the reply of the harness names it, looked up by
    # the key the service returned), whatever spelling the request used (surrounding blanks, tabs, letter case, doubled slash)
    if REPLAY is None or any(o.startswith("create ") for o in REPLAY.get("ops", [])):
        c_accts, _, _ = hist.std_config(lkeys, nacct=3, locked=False)
        cstage = []
        for pat, base in (("Wallet 1/Validator.*", "Validator3"), ("Wallet 1/.*[0-9]", "Acc7"), ("Wallet 1/New", "New"), ("Wallet 1/(?i)dep.*", "Deposit")):
            cperms = [("client1", pat, ["~Create account", "All"]), ("client1", "Wallet 1", ["All"]), ("client2", "Wallet 1/" + base, ["Create account"])]
            ccfg = ["nocache"] + hist.config_lines(c_accts, cperms, [])
            cops = []
            # (the plain name last: once it exists, a spelling that is mistaken for it would only be refused as a duplicate)
            for q, nm in enumerate([" " + base, base + " ", "\t" + base, base + "\n", "  " + base + "  ", base.upper(), base.lower(), "/" + base, "Other%d" % len(cstage), base]):
                for who in ("client1", "client2"):
                    cops.append("create %s %s" % (hx(who), hx("Wallet 1/" + nm)))
            cops.append("list %s %s" % (hx("client1"), hx("Wallet 1")))
            cstage.append((ccfg, cops))
        if REPLAY is not None:
            cstage = [(REPLAY["config"], REPLAY["ops"])]
        cl = []
        for ccfg, cops in cstage:
            cl += ["reset"] + ccfg + cops
        cimpl, ccrashed, cerr = run_impl(dh, wd, cl)
        cmodel = run_model(cl)
        if ccrashed:
            rep.broken.append(("implementation-crash:create", cerr[-1500:], False))
        else:
            pos, jl, jm = 0, [], []
            for ccfg, cops in cstage:
                seg_i, seg_m = cimpl[pos + 1:pos + 1 + len(cops)], cmodel[pos + 1:pos + 1 + len(cops)]
                pos += 1 + len(cops)
                jl += ["reset"] + [l for l in ccfg if l.split()[0] in ("acct", "perm", "permclient", "wallet")] + ["begin"]
                jm.append(None)
                for k_, (o, io, mo) in enumerate(zip(cops, seg_i, seg_m)):
                    rep.count("create-stage|" + o, io.startswith("ok"))
                    if io.strip() != mo.strip() and not any(b[0].startswith("correspondence:create") for b in rep.broken):
                        rep.broken.append(("correspondence:create(model createAccount vs process service)", json.dumps({"config": ccfg, "ops": cops[:k_ + 1], "impl": io, "model": mo}), True))
                    if o.startswith("create ") and io.startswith("ok") and len(io.split()) > 1 and io.split()[1] != "?":
                        jl.append("check %s %s %s" % (o.split()[1], io.split()[1], hx("Create account")))
                        jm.append((ccfg, cops[:k_ + 1], io))
            jo = run_model(jl)
            rep.cov["creations_judged_against_permissions"] = sum(1 for m in jm if m is not None)
            for m, o in zip(jm, jo):
                if m is not None and o.strip() == "0":
                    made = bytes.fromhex(m[2].split()[1]).decode(errors="replace")
                    rep.violation("created-without-permission", "an account was created that the client's permissions do not let it create: %r now exists" % made,
                                  {"config": m[0], "ops": m[1], "impl": m[2]})
                    break

    def identity_variants(keys_, rng_):
        """through the real gRPC API, callers whose verified certificate subject differs from a configured client's name in letter
        case, by surrounding blanks, or by a trailing dot: they are other identities and have no permissions"""
        accts_, perms_, admins_ = hist.std_config(keys_, nacct=3, locked=False)
        cfg_ = ["viagrpc"] + hist.config_lines(accts_, perms_, admins_)
        n0_ = "n:" + hx(accts_[0].path)
        r32_ = (bytes([0xA1]) * 32).hex()
        ops_ = []
        for q, who in enumerate(["client1", "Client1", "CLIENT1", "client1 ", " client1", "client1.", "cliENT1", "client1"]):
            ops_ += ["sign %s - %s %s,%s -" % (hx(who), n0_, (DOM_RANDAO + bytes(28)).hex(), r32_), att_line(who, n0_, 1 + q, 2 + q, 0),
                     prop_line(who, n0_, 1 + q, 0), "list %s %s" % (hx(who), hx("Wallet 1"))]
        return [{"cfg": cfg_, "ops": ops_, "accts": accts_, "opts": {}}]
    run_hist_property(rep, tier, seed, wd, "C07", SIGN_KINDS + ("export", "lockacct", "unlockacct", "list"), opts, sizes, corpus=False, judges=[judge_released],
                      extra_hist=lambda keys, rng: acctmgr_histories(keys, rng, *tier_sizes(tier, (6, 18), (60, 40))) + identity_variants(keys, rng))


def run_imp_scenarios(rep, dh, wd, scen, label="imp"):
    """scen: list of (cfg lines, ops). Runs the dirk binary and the model; diffs; judges imports."""
    from common import run_impl, run_model, build_dirk
    import imp
    if REPLAY is not None:
        scen = [(REPLAY["config"], REPLAY["ops"])] if replay_is_imp() and "config" in REPLAY else []
    dirk = build_dirk(wd)
    from concurrent.futures import ThreadPoolExecutor
    jobs = min(12, max(1, len(scen) // 4))
    chunks = [scen[i::jobs] for i in range(jobs)]
    chunks = [c for c in chunks if c]

    def run_chunk(ch):
        lines = []
        for cfg, ops in ch:
            lines.append("reset")
            lines += cfg + ops
        impl, crashed, err = run_impl(dh, wd, lines, engine="imp", extra_args=[dirk])
        model = run_model(lines)
        res = []
        pos = 0
        for cfg, ops in ch:
            n = 1 + len(ops)
            res.append((cfg, ops, impl[pos + 1:pos + n], model[pos + 1:pos + n]))
            pos += n
        return res, crashed, err
    results = []
    with ThreadPoolExecutor(max_workers=jobs) as ex:
        for res, crashed, err in ex.map(run_chunk, chunks):
            results += res
            if crashed:
                rep.broken.append(("implementation-crash:" + label, err, False))
    first_bad = None
    first_live = None
    jl, jidx = [], []
    for si, (cfg, ops, impl, model) in enumerate(results):
        overlap = False
        for i, op in enumerate(ops):
            il = impl[i] if i < len(impl) else "<missing>"
            ml = model[i] if i < len(model) else "<missing>"
            if il.strip() != ml.strip() and first_bad is None:
                first_bad = (si, i, op, il, ml)
            k = op.split()[0]
            rep.dist("op", k)
            if k == "importlive":
                rep.dist("import_on_live_store", il)
                if il.strip() == "ok" and first_live is None:
                    first_live = (si, i)
            if k == "import":
                rep.dist("import_result", il)
                f = op.split()
                before = imp.parse_export(impl[i - 1]) if i >= 1 else None
                after = imp.parse_export(impl[i + 1]) if i + 1 < len(impl) else None
                if before is None or after is None:
                    continue
                jl.append("jimpfile %s %s" % (f[2], f[3]))
                jidx.append(None)
                keys = sorted(set(before) | set(after))
                if set(before) & set(after):
                    overlap = True
                for key in keys:
                    b = before.get(key, ("-1", "-1", "-1"))
                    a = after.get(key, ("-1", "-1", "-1"))
                    jl.append("%s %s %s %s" % ("jimpkey" if il == "ok" else "jimpfail", key, " ".join(b), " ".join(a)))
                    jidx.append((si, i, key))
        rep.count(json.dumps(ops), overlap)
    out = run_model(jl)
    found = False
    if first_live is not None:
        si, i = first_live
        cfg, ops, impl, model = results[si]
        rep.violation("import-accepted-on-live-store", "the import command reported success while an instance was active on the same store: the running instance "
                      "neither sees what was imported nor keeps it", {"config": cfg, "ops": ops[:i + 2], "impl": impl[:i + 2]})
        found = True
    for meta, o in zip(jidx, out):
        if meta is None or o.strip() == "ok":
            continue
        si, i, key = meta
        cfg, ops, impl, model = results[si]
        rep.violation("import-" + o.strip(),
                      "after an import the exported protection of key %s is judged %s by the Lean specification" % (key[:12], o.strip()),
                      {"config": cfg, "ops": ops[:i + 2], "impl": impl[:i + 2], "key": key,
                       "decoded_import": [bytes.fromhex(x).decode(errors="replace") if x not in ("-", ".") else x
                                          for x in ops[i].replace(",", " ").replace(";", " ").replace(":", " ").replace("~", " ").split()[1:]]})
        found = True
        break
    rep.cov["imports_judged"] = sum(1 for m in jidx if m is None)
    if results:
        cfg, ops, impl, model = results[-1]
        rep.sample({"ops": [o[:200] for o in ops[:4]], "impl": impl[:4], "model": model[:4]})
    if first_bad is not None:
        si, i, op, il, ml = first_bad
        cfg, ops, impl, model = results[si]
        rep.broken.append(("correspondence:%s(model importFile vs dirk binary)" % label,
                           json.dumps({"config": cfg, "ops": ops[:i + 1], "impl": il, "model": ml}), found))
    return results


def c10(rep, tier, seed, wd, replay):
    import imp
    rep.cov["rule"] = ("import scenarios driven through the built dirk binary: prior stores (raw records, earlier imports, rule probes) x "
                       "interchange files (0-5 entries, repeated keys, blocks/attestations in any mix, one field newer another older or "
                       "absent, negative/overflowing/malformed numbers, short/long/garbage/upper-case keys, wrong version/root/missing "
                       "metadata) x sequences of 1-4 steps; non-trivial = a key present both before and after an import")
    rep.assumptions += ["encoding/json and viper are not modelled: both sides receive the same structured description of each file"]
    prove(rep, "C10")
    dh = build_harness(wd)
    rng = Rng(seed * 104729 + 10)
    n = tier_sizes(tier, 160, 3000)
    k0 = imp.KEYS[0]
    G = imp.G
    scen = []
    # corpus: the shipped defect — a file newer in one field, absent/older in another, is dropped whole
    v1att = lambda s, t: (bytes([1]) + s.to_bytes(8, "little") + t.to_bytes(8, "little")).hex()
    v1prop = lambda s: (bytes([1]) + s.to_bytes(8, "little")).hex()
    cfg = ["raw %s %s" % ((k0 + b"\x02").hex(), v1att(5, 6)), "raw %s %s" % ((k0 + b"\x03").hex(), v1prop(10)), "begin"]
    scen.append((cfg, ["export", imp.import_line(G, ("5", G), [("0x" + k0.hex(), ["20"], [])]), "export", "probeprop %s 15" % k0.hex(), "export"]))
    scen.append((cfg, ["export", imp.import_line(G, ("5", G), [("0x" + k0.hex(), ["3"], [("7", "9")])]), "export"]))
    scen.append((cfg, ["export", imp.import_line(G, ("5", G), [("0x" + k0.hex(), ["30"], []), ("0x" + k0.hex(), ["12"], [("8", "9")])]), "export"]))
    scen.append((["begin"], ["export", imp.import_line(G, ("5", G), [("0x" + k0.hex(), ["30"], [("1", "2")]), ("0x" + k0.hex(), ["12"], [])]), "export"]))
    # numbers written with leading zeros, a sign, blanks, a base prefix or an exponent: read as DECIMAL integers or refused,
    # never as something smaller
    for blk_, att_ in (("0100", ("010", "020")), ("00000000000000000077", ("0007", "0070")), ("+5", ("1", "2")), ("0x10", ("1", "2")), ("1e3", ("1", "2")),
                       (" 12", ("1", "2")), ("12 ", ("1", "2")), ("0o17", ("1", "2")), ("0b11", ("1", "2")), ("1_000", ("1", "2"))):
        scen.append((["begin"], ["export", imp.import_line(G, ("5", G), [("0x" + k0.hex(), [blk_], [att_])]), "export",
                                 "probeprop %s 70" % k0.hex(), "probeatt %s 8 15" % k0.hex(), "export"]))
        scen.append((cfg, ["export", imp.import_line(G, ("5", G), [("0x" + k0.hex(), [blk_], [att_])]), "export"]))
    # the import command while an instance is active on the store: refused, nothing changes
    live_ = imp.import_line(G, ("5", G), [("0x" + k0.hex(), ["100"], [("50", "60")])]).replace("import ", "importlive ", 1)
    scen.append((cfg, ["export", live_, "export", "probeprop %s 50" % k0.hex(), imp.import_line(G, ("5", G), [("0x" + k0.hex(), ["100"], [])]), "export"]))
    scen.append((["begin"], ["export", live_, "export"]))
    # large stores (more records than one iterator prefetch of the storage engine): an import of old history for a
    # few keys must leave every key's protection where it was
    for nk in ([60, 130] if tier != "thorough" else [51, 60, 101, 130, 257]):
        r = rng.fork()
        raws, ks = imp.big_store_raws(nk)
        picks = [ks[0], ks[1], ks[r.below(nk)], ks[nk // 2], ks[nk - 1]]
        ents = [("0x" + k.hex(), [str(3 + r.below(5))], [(str(1 + r.below(3)), str(5 + r.below(3)))]) for k in picks]
        scen.append((raws + ["begin"], ["export", imp.import_line(G, ("5", G), ents), "export",
                                        imp.import_line(G, ("5", G), [("0x" + ks[2].hex(), ["200000"], [("150000", "150001")])]), "export"]))
    for _ in range(n):
        r = rng.fork()
        scen.append(imp.gen_scenario(r, good_only=r.chance(0.4)))
    # one very large import (more records than one storage transaction holds: badger's limit is ~104.8k entries with
    # dirk's options), run beside the others on a memory-backed directory
    import threading
    bulk_res = {}

    def bulk():
        from common import run_impl, run_model, build_dirk
        nb = 106000 if tier != "thorough" else 215000
        base = "/dev/shm/verif-bulk-%d" % os.getpid() if os.path.isdir("/dev/shm") else os.path.join(wd, "bulk")
        os.makedirs(base, exist_ok=True)
        try:
            lines_ = ["reset", "begin", "importbulk %d 1000 5 6" % nb]
            bulk_res["impl"] = run_impl(dh, base, lines_, engine="imp", extra_args=[build_dirk(wd)], timeout=3000)
            bulk_res["model"] = run_model(lines_)
            bulk_res["lines"] = lines_
        finally:
            shutil.rmtree(base, ignore_errors=True)
    if REPLAY is None or "importbulk" in " ".join(REPLAY.get("ops", [])):
        build_dirk(wd)
        th = threading.Thread(target=bulk)
        th.start()
    else:
        th = None
    run_imp_scenarios(rep, dh, wd, scen)
    rep.cov["traces_validated_against_impl"] = len(scen)
    # after an import, requests THROUGH THE SIGNER (by name, by key, by an over-long spelling of the key, by both) at or
    # below the imported values must be refused: the imported record is the one the request's resolved key consults
    if REPLAY is None or replay_history() is not None:
        run_hist_property(rep, tier, seed, wd, "C10", SIGN_KINDS + ("export", "restart", "importsvc"), {"clean": True, "huge": False}, (0, 0),
                          judges=[judge_after_import], corpus=False, extra_hist=lambda k_, r_: live_import_histories(k_, r_, tier))
    if th is not None:
        th.join()
        (io, crashed, err), mo = bulk_res.get("impl", ([], True, "bulk run did not finish")), bulk_res.get("model", [])
        rep.cov["bulk_import"] = io[-1] if io else "no output"
        rep.count("bulk|" + " ".join(bulk_res.get("lines", [])), True)
        if crashed or len(io) < 2:
            rep.broken.append(("implementation-crash:imp-bulk", err[-1500:], False))
        elif io[-1].strip() != mo[-1].strip():
            f = dict(x.split("=") for x in io[-1].split()[2:])
            if io[-1].startswith("bulk ok") and (int(f.get("below", 0)) or int(f.get("missing", 0))):
                rep.violation("import-bulk-LOST", "after a successful import of %s keys, %s keys are absent from the store and %s hold values below the imported ones" % (f.get("n"), f.get("missing"), f.get("below")),
                              {"config": ["begin"], "ops": bulk_res["lines"][2:], "impl": io})
            else:
                rep.broken.append(("correspondence:imp-bulk(model importFile vs dirk binary)", json.dumps({"ops": bulk_res["lines"], "impl": io, "model": mo}), False))


def c08(rep, tier, seed, wd, replay):
    rep.cov["rule"] = ("well-formed attestation/proposal/generic requests with arbitrary field values (0 and 2^64-1 slots/indices, "
                       "patterned roots), by name or key, single and in batches of sizes 1,2,3,15,16,17,33,64,65 (thorough: up to 300) "
                       "under GOMAXPROCS 1,2,3,16; every returned signature is verified by the real BLS library under the addressed "
                       "account's public key over the signing root computed by the Lean model; non-trivial = request that returned a signature")
    rep.assumptions += ["SHA-256 collision resistance; BLS library (herumi) correctness; the model's SHA-256/SSZ re-implementation is tied by this very check"]
    prove(rep, "C08")
    dh = build_harness(wd)
    big = tier == "thorough"
    nacct = 600 if big else 300
    keys = hist.interop_keys(dh, nacct + 8)
    rng = Rng(seed * 31337 + 8)
    accts = [hist.Acct("Wallet 1" if i % 2 == 0 else "Wallet 2", "Account %d" % i, keys[i]) for i in range(nacct)]
    locked = hist.Acct("Wallet 1", "Locked", keys[nacct], unlockable=False)
    # two DISTRIBUTED accounts (a share each): the first's composite (validator) key is nobody's account key, the second's is
    # the key of ordinary account 0 (a validator being moved from a single key to a threshold set-up).  A request addressed
    # by a public key is answered by the account whose OWN key that is, or refused.
    comp1 = keys[nacct + 3]
    dist1 = hist.Acct("DWallet", "Share 1", keys[nacct + 2], dist="C=%s;1=signer-test01:8881;2=signer-test02:8882;3=signer-test03:8883" % comp1.hex())
    dist2 = hist.Acct("DWallet", "Share 2", keys[nacct + 4], dist="C=%s;1=signer-test01:8881;2=signer-test02:8882;3=signer-test03:8883" % keys[0].hex())
    # account names that contain a slash (a path splits at the FIRST slash only), beside the account named like their first
    # element: "Wallet 1/Account 0/withdrawal" is not "Wallet 1/Account 0"
    sl1 = hist.Acct("Wallet 1", "Account 0/withdrawal", keys[nacct + 5])
    sl2 = hist.Acct("Wallet 2", "Account 1/a/b", keys[nacct + 6])
    perms = [("c", ".*", ["All"])]
    cfg = hist.config_lines(accts + [locked, dist1, dist2, sl1, sl2], perms, ["10.0.0.1"])
    sizes = [1, 2, 3, 15, 16, 17, 33, 64, 65] + ([127, 128, 129] if big else [])
    big_sizes = [257, 300] + ([255, 256, 513, 600] if big else [])
    ops = []
    epoch = 1
    g = hist.HistGen(rng, accts, {"clean": True})

    def adr(a):
        return rng.choice(["n:" + hx(a.path), "k:" + a.pk.hex()])
    n_small_ops = None
    for n in sizes + big_sizes:
        if n == big_sizes[0] and n_small_ops is None:
            n_small_ops = len(ops)
        picks = rng.shuffle(accts)[:n]
        items = []
        for a in picks:
            rt = [bytes(rng.below(256) for _ in range(32)).hex() for _ in range(3)]
            slot = rng.choice([0, 1, epoch * 32, hist.TWO64 - 1])
            cidx = rng.choice([0, 5, hist.TWO64 - 1])
            items.append("%s,%s,%d,%d,%s,%d,%s,%d,%s" % (adr(a), hist.dom32(DOM_ATT, rng).hex(), slot, cidx, rt[0], epoch, rt[1], epoch + 1, rt[2]))
        ops.append("atts %s - - %s" % (hx("c"), ";".join(items)))
        # the same accounts again, some repeating the target just signed with other roots (refused by the rules),
        # the rest advancing: refused and approved entries then share a worker's extent
        items = []
        for a in picks:
            rt = [bytes(rng.below(256) for _ in range(32)).hex() for _ in range(3)]
            s_, t_ = (epoch, epoch + 1) if rng.below(10) < 3 else (epoch + 2, epoch + 3)
            items.append("%s,%s,%d,%d,%s,%d,%s,%d,%s" % (adr(a), hist.dom32(DOM_ATT, rng).hex(), 7, 1, rt[0], s_, rt[1], t_, rt[2]))
        if rng.below(2) == 0:
            items.insert(rng.below(len(items) + 1), "n:%s,%s,7,1,%s,%d,%s,%d,%s" % (hx("Wallet 1/Nobody"), hist.dom32(DOM_ATT, rng).hex(), "11" * 32, epoch + 2, "22" * 32, epoch + 3, "33" * 32))
        ops.append("atts %s - - %s" % (hx("c"), ";".join(items)))
        epoch += 4
        # neighbours that differ in exactly ONE field (slot, committee, each root, each epoch, domain suffix), all to be
        # signed: whatever is shared or reused between neighbouring entries of a worker's extent must not leak across
        cur = {"dom": (DOM_ATT + bytes(28)).hex(), "slot": 9, "cidx": 2, "bbr": "b1" * 32, "s": epoch, "sr": "c1" * 32, "t": epoch + 1, "tr": "d1" * 32}
        fields = ["sr", "tr", "bbr", "slot", "cidx", "dom", "s", "t"]
        items = []
        for j, a in enumerate(picks):
            if j > 0:
                fld = fields[(j - 1) % len(fields)] if n > 2 else rng.choice(fields)
                if fld in ("sr", "tr", "bbr"):
                    cur[fld] = bytes([rng.below(256)]).hex() * 32
                elif fld in ("slot", "cidx"):
                    cur[fld] += 1 + rng.below(3)
                elif fld == "dom":
                    cur[fld] = (DOM_ATT + bytes([rng.below(256)]) * 28).hex()
                elif fld == "s":
                    cur["s"] = epoch if cur["s"] != epoch else epoch - 1
                else:
                    cur["t"] = epoch + 1 if cur["t"] != epoch + 1 else epoch + 2
            items.append("%s,%s,%d,%d,%s,%d,%s,%d,%s" % (adr(a), cur["dom"], cur["slot"], cur["cidx"], cur["bbr"], cur["s"], cur["sr"], cur["t"], cur["tr"]))
        ops.append("atts %s - - %s" % (hx("c"), ";".join(items)))
        epoch += 4
        ms = ";".join("%s,%s,%s" % (adr(a), hist.dom32(DOM_RANDAO, rng).hex(), bytes(rng.below(256) for _ in range(32)).hex()) for a in picks)
        ops.append("msign %s - - %s" % (hx("c"), ms))
        # all entries addressed by NAME, in an order that is not the sorted one (and all by KEY): whatever reorders or
        # regroups the names must keep entry i the answer to request i
        if n >= 2 and n <= 65:
            for form in ("n", "k"):
                ents = ["%s,%s,%s" % (("n:" + hx(a.path)) if form == "n" else ("k:" + a.pk.hex()), hist.dom32(DOM_RANDAO, rng).hex(),
                                      bytes(rng.below(256) for _ in range(32)).hex()) for a in reversed(sorted(picks, key=lambda a_: a_.path))]
                ops.append("msign %s - - %s" % (hx("c"), ";".join(ents)))
        # the same kind of batch with ONE entry that fails before the rules are consulted (unknown account / account that
        # cannot be unlocked / unknown key) at the front, in the middle or at the end: whatever the batch does with the
        # other entries, an entry's signature is by the account THAT entry addresses over THAT entry's data
        if n <= 65:
            mi = ["%s,%s,%s" % (adr(a), hist.dom32(DOM_RANDAO, rng).hex(), bytes(rng.below(256) for _ in range(32)).hex()) for a in picks]
            badadr = rng.choice(["n:" + hx("Wallet 1/Nobody"), "n:" + hx(locked.path), "k:" + locked.pk.hex(), "k:" + keys[nacct + 1].hex()])
            pos_ = rng.choice([0, 0, len(mi) // 2, len(mi)])
            mi.insert(pos_, "%s,%s,%s" % (badadr, hist.dom32(DOM_RANDAO, rng).hex(), bytes(rng.below(256) for _ in range(32)).hex()))
            ops.append("msign %s - - %s" % (hx("c"), ";".join(mi)))
    ops_big = ops[n_small_ops:]
    ops = ops[:n_small_ops]
    # requests addressed by the composite keys and by the share keys of the distributed accounts
    rr_ = lambda: bytes(rng.below(256) for _ in range(32)).hex()
    for kx in (comp1, keys[0], dist1.pk, dist2.pk):
        ops.append("sign %s - k:%s %s,%s -" % (hx("c"), kx.hex(), hist.dom32(DOM_RANDAO, rng).hex(), rr_()))
        ops.append("att %s - k:%s %s,%d,%d,%s,%d,%s,%d,%s -" % (hx("c"), kx.hex(), hist.dom32(DOM_ATT, rng).hex(), 3, 1, rr_(), 900, rr_(), 901, rr_()))
        ops.append("prop %s - k:%s %s,%d,1,%s,%s,%s -" % (hx("c"), kx.hex(), hist.dom32(DOM_PROP, rng).hex(), 900, rr_(), rr_(), rr_()))
    ops.append("msign %s - - %s" % (hx("c"), ";".join("k:%s,%s,%s" % (kx.hex(), hist.dom32(DOM_RANDAO, rng).hex(), rr_()) for kx in (keys[0], dist1.pk, keys[1], dist2.pk))))
    ops.append("msign %s - - %s" % (hx("c"), ";".join("k:%s,%s,%s" % (kx.hex(), hist.dom32(DOM_RANDAO, rng).hex(), rr_()) for kx in (keys[1], comp1, keys[2]))))
    # names with slashes, and spellings a lenient reader might "tidy" (blanks, doubled / trailing slashes): only the exact
    # name of an account addresses it
    for nm_ in (sl1.path, sl2.path, accts[0].path, accts[1].path, accts[0].path + "/", "Wallet 1//Account 0", " " + accts[0].path, accts[0].path + " ",
                "Wallet 1/ Account 0", sl2.path + "/c", "Wallet 2/Account 1/a"):
        ops.append("sign %s - n:%s %s,%s -" % (hx("c"), hx(nm_), hist.dom32(DOM_RANDAO, rng).hex(), rr_()))
        ops.append("att %s - n:%s %s,%d,%d,%s,%d,%s,%d,%s -" % (hx("c"), hx(nm_), hist.dom32(DOM_ATT, rng).hex(), 3, 1, rr_(), 950, rr_(), 951, rr_()))
    ops.append("msign %s - - %s" % (hx("c"), ";".join("n:%s,%s,%s" % (hx(nm_), hist.dom32(DOM_RANDAO, rng).hex(), rr_()) for nm_ in (sl1.path, accts[0].path, sl2.path))))
    for i in range(40 if not big else 300):
        a = rng.choice(accts)
        rt = [bytes(rng.below(256) for _ in range(32)).hex() for _ in range(3)]
        ops.append("att %s - %s %s,%d,%d,%s,%d,%s,%d,%s -" % (hx("c"), adr(a), hist.dom32(DOM_ATT, rng).hex(), rng.choice([0, hist.TWO64 - 1, 77]),
                                                             rng.choice([0, hist.TWO64 - 1]), rt[0], epoch, rt[1], epoch + 1, rt[2]))
        ops.append("prop %s - %s %s,%d,%d,%s,%s,%s -" % (hx("c"), adr(a), hist.dom32(DOM_PROP, rng).hex(), epoch, rng.choice([0, hist.TWO64 - 1, 9]), rt[0], rt[1], rt[2]))
        ops.append("sign %s - %s %s,%s -" % (hx("c"), adr(a), hist.dom32(DOM_RANDAO, rng).hex(), rt[0]))
        epoch += 2
    # a request whose signing step (g0) or state write (s, S) FAILS between two that succeed, then the very same request
    # again, then a fresh one: whatever a signer remembers about earlier requests (last root, last signature, retries), a
    # signature that is returned is over the data of the request it answers
    for q_, a in enumerate(rng.shuffle(accts)[:6]):
        flt = ["g0", "s", "S", "g0", "g0", "s"][q_]
        form = adr(a)
        pr = lambda sl_, tg_, f_="-": "prop %s - %s %s,%d,%d,%s,%s,%s %s" % (hx("c"), form, (DOM_PROP + bytes(28)).hex(), sl_, 3, bytes([tg_]).hex() * 32, bytes([tg_ + 1]).hex() * 32, bytes([tg_ + 2]).hex() * 32, f_)
        at = lambda s_, t_, tg_, f_="-": "att %s - %s %s,%d,%d,%s,%d,%s,%d,%s %s" % (hx("c"), form, (DOM_ATT + bytes(28)).hex(), 5, 1, bytes([tg_]).hex() * 32, s_, bytes([tg_ + 1]).hex() * 32, t_, bytes([tg_ + 2]).hex() * 32, f_)
        ops += [pr(epoch, 0x10), pr(epoch, 0x10), pr(epoch + 1, 0x20, flt), pr(epoch + 1, 0x20), pr(epoch + 1, 0x20), pr(epoch + 2, 0x30),
                at(epoch, epoch + 1, 0x40), at(epoch, epoch + 1, 0x40), at(epoch + 1, epoch + 2, 0x50, flt), at(epoch + 1, epoch + 2, 0x50), at(epoch + 2, epoch + 3, 0x60)]
        sg = lambda tg_, f_="-": "sign %s - %s %s,%s %s" % (hx("c"), form, (DOM_RANDAO + bytes(28)).hex(), bytes([tg_]).hex() * 32, f_)
        ops += [sg(0x70), sg(0x71, "g0"), sg(0x71), sg(0x72)]
        epoch += 4
    all_h = []
    runs = [({"cfg": cfg, "ops": ops, "accts": accts + [locked, dist1, dist2, sl1, sl2], "opts": {}, "gomaxprocs": p}, "ssz") for p in ([1, 2, 3, 16] if not big else [1, 2, 3, 16, 128])]
    runs.append(({"cfg": cfg, "ops": ops_big, "accts": accts + [locked, dist1, dist2, sl1, sl2], "opts": {}, "gomaxprocs": 3}, "ssz-big"))
    # the same requests through the real gRPC API (TLS, interceptors, handlers): whatever the handlers do with a batch
    # (splitting, copying results back) must keep entry i the answer to request i
    for p in ([4] if not big else [2, 16]):
        runs.append(({"cfg": ["viagrpc"] + cfg, "ops": ops_big + ops[:12], "accts": accts + [locked, dist1, dist2, sl1, sl2], "opts": {}, "gomaxprocs": p, "viagrpc": True}, "ssz-grpc"))
    # the same with every service logging at trace level (to a discarding writer): whatever code runs only when a log entry is
    # enabled must not touch what is signed — directly and through the gRPC API
    runs.append(({"cfg": ["tracelog"] + cfg, "ops": ops, "accts": accts + [locked, dist1, dist2, sl1, sl2], "opts": {}, "gomaxprocs": 2}, "ssz-trace"))
    runs.append(({"cfg": ["tracelog", "viagrpc"] + cfg, "ops": ops, "accts": accts + [locked, dist1, dist2, sl1, sl2], "opts": {}, "gomaxprocs": 3, "viagrpc": True}, "ssz-grpc-trace"))
    from concurrent.futures import ThreadPoolExecutor as _TPE

    def _run(hr):
        h_, label_ = hr
        return label_, engines.exec_histories(dh, wd, [h_], env={"GOMAXPROCS": str(h_["gomaxprocs"])}, jobs=1)
    with _TPE(max_workers=8) as ex_:
        for (h_, _), (label_, (crashed, err)) in zip(runs, ex_.map(_run, runs)):
            if crashed:
                rep.broken.append(("implementation-crash:" + label_, err, False))
            all_h.append(h_)
    # many signing requests in flight at once (more goroutines than processors): whatever is shared between concurrent
    # signing operations must not leak from one request into another's signature.  Generic signing is stateless, so the
    # model's answer does not depend on the order.
    import conc as conc_
    from common import run_impl as _ri, run_model as _rm
    for p in ([2, 4] if not big else [1, 2, 4, 16]):
        r_ = rng.fork()
        cops = []
        for q in range(160 if not big else 900):
            ents = []
            for a in r_.shuffle(accts)[:1 + r_.below(8)]:
                ents.append("%s,%s,%s" % (adr(a), hist.dom32(DOM_RANDAO, r_).hex(), bytes(r_.below(256) for _ in range(32)).hex()))
            if len(ents) == 1 and r_.chance(0.5):
                cops.append((0, "sign %s - %s %s -" % (hx("c"), ents[0].split(",", 1)[0], ents[0].split(",", 1)[1])))
            else:
                cops.append((0, "msign %s - - %s" % (hx("c"), ";".join(ents))))
        lines_ = ["reset"] + cfg + conc_.scenario_lines([], "yield", cops, 64)
        io_, crashed_, err_ = _ri(dh, wd, lines_, env={"GOMAXPROCS": str(p)}, timeout=1200)
        if crashed_ or len(io_) < len(cops) + 4 or any(o.startswith("TIMEOUT") for o in io_):
            rep.broken.append(("implementation-crash:ssz-concurrent", json.dumps({"gomaxprocs": p, "crashed": crashed_, "lines": len(io_), "expected": len(cops) + 4,
                                                                                   "timeouts": [o for o in io_ if o.startswith("TIMEOUT")][:3], "stderr": err_[-1500:]}), False))
            continue
        res_ = conc_.parse_go(io_[1 + 1 + len(cops)])
        ops_ = [op for _, op in cops]
        mo_ = _rm(["reset"] + cfg + ops_)
        h = {"cfg": cfg, "ops": ops_, "accts": accts + [locked, dist1, dist2, sl1, sl2], "opts": {}, "gomaxprocs": p, "impl": [x[2] for x in res_], "model": mo_[1:], "bad": [],
             "concurrent": True}
        all_h.append(h)
        rep.dist("concurrent_signing_requests", "GOMAXPROCS=%d" % p, len(cops))
    found = False
    first_bad = None
    nsig = 0
    for h in all_h:
        rel = [b for b in h["bad"]]
        if rel and first_bad is None:
            first_bad = (h, rel[0])
        for i, op in enumerate(h["ops"]):
            k = op.split()[0]
            rep.dist("op", k)
            if i < len(h["impl"]):
                pls = hist.payloads_of(h["impl"][i])
                for j, pl in enumerate(pls):
                    rep.count("%s|%d|%d|%s" % (h["gomaxprocs"], i, j, op[:40]), pl is not None)
                    nsig += pl is not None
                if k in ("atts", "msign"):
                    rep.dist("batch_size", str(len(pls)))
                    if len(pls) != len(op.split()[4].split(";")):
                        rep.violation("shape", "response does not have exactly one entry per request",
                                      {"config": "65/300 accounts, all permitted", "op_index": i, "gomaxprocs": h["gomaxprocs"]})
                        found = True
    if judge_sig(rep, dh, wd, all_h):
        found = True
    # the verifier must discriminate: a signature must not verify for the neighbouring position's root
    h = all_h[0]
    lines = []
    for i, op in enumerate(h["ops"]):
        if op.startswith("atts") and i < len(h["impl"]):
            ip, mp = hist.payloads_of(h["impl"][i]), hist.payloads_of(h["model"][i])
            items = op.split()[4].split(";")
            for j in range(len(ip) - 1):
                if ip[j] and mp[j + 1] and mp[j] != mp[j + 1]:
                    key = hist.key_of_addr(items[j].split(",")[0], accts)
                    lines.append("%s %s %s" % (key.hex(), mp[j + 1], ip[j]))
    if lines:
        from common import sh
        rc, out, err = sh([dh, "sigcheck"], input="\n".join(lines[:200]) + "\n")
        rep.cov["neighbour_roots_rejected"] = sum(1 for o in out.splitlines() if o.strip() == "bad")
        if any(o.strip() == "ok" for o in out.splitlines()):
            rep.violation("neighbour-verifies", "a signature verifies for the neighbouring request's data", {"lines": lines[:3]})
            found = True
    rep.sample({"op": ops[0][:300], "impl": h["impl"][0][:120], "model": h["model"][0][:120]})
    rep.cov["traces_validated_against_impl"] = len(all_h)
    if first_bad is not None:
        h, (i, op, il, ml) = first_bad
        rep.broken.append(("correspondence:ssz(model C08 vs implementation)",
                           json.dumps({"gomaxprocs": h["gomaxprocs"], "op_index": i, "op": op[:500], "impl": il[:300], "model": ml[:300]}), found))


def c09(rep, tier, seed, wd, replay):
    rep.cov["rule"] = ("(a) util.Scatter's (offset, entries) pairs for every n<=600 (thorough 5000) x GOMAXPROCS in {1,2,3,4,7,8,16,64,128} against "
                       "the Lean extents function (exhaustive over that grid); (b) clean histories (well-formed, authorised, fault-free "
                       "requests, advancing and non-advancing epochs/slots below 2^63): every request that advances on everything "
                       "released so far for its key must be SUCCEEDED (Lean judge); (c) each history's last batch is also executed entry "
                       "by entry on a twin instance with the identical prefix: verdicts must be equal position by position, under "
                       "several GOMAXPROCS; non-trivial = history with >=1 batch of >=2 entries")
    rep.assumptions += ["liveness is judged on import-free histories whose only faults are store calls that fail WITHOUT taking effect "
                        "(a landed-but-failed write or an import legitimately leaves a record above everything signed); the faulted request itself is not judged"]
    prove(rep, "C09")
    dh = build_harness(wd)
    from common import run_model, sh
    # (a) scatter
    nmax = 600 if tier != "thorough" else 5000
    ps = [1, 2, 3, 4, 7, 8, 16, 64, 128]
    lines = ["scatter %d %d" % (n, p) for p in ps for n in range(1, nmax + 1)]
    rc, out, err = sh([dh, "scatter"], input="\n".join(lines) + "\n")
    if rc != 0:
        raise Broken("scatter-engine", err[-1000:])
    impl = out.splitlines()
    model = run_model(lines)
    rep.cov["scatter_cases"] = len(lines)
    found = False
    sc_bad = None
    for l, i, m in zip(lines, impl, model):
        if i.strip() != m.strip():
            sc_bad = (l, i, m)
            # is it an actual partition failure? (judge: the pairs must tile 0..n-1)
            n = int(l.split()[1])
            covered = []
            ok = True
            try:
                for tok in i.split():
                    o, c = tok.split(":")
                    covered += list(range(int(o), int(o) + int(c)))
                    ok = ok and int(c) > 0
            except Exception:
                ok = False
            if not ok or covered != list(range(n)):
                rep.violation("scatter-partition", "util.Scatter does not split [0,n) into consecutive non-empty extents covering every index once",
                              {"case": l, "impl": i, "model": m})
                found = True
            break
    if sc_bad and not found:
        rep.broken.append(("correspondence:scatter(model extents vs util.Scatter)", json.dumps(sc_bad), False))
    rep.dist("scatter", "cases", len(lines))
    # (b) + (c)
    sizes = tier_sizes(tier, (40, 40), (300, 100))
    opts = {"clean": True, "huge": False, "nacct": 5, "gomaxprocs": [None, 2] if tier != "thorough" else [1, 2, 16, 128]}

    def live_lines(h):
        for i, op in enumerate(h["ops"]):
            f = op.split()
            if i >= len(h["impl"]):
                break
            # (a request during which a store call was MADE to fail is not judged itself: the one after it is)
            faulted = (f[0] in ("att", "prop") and len(f) > 5 and f[5] != "-") or (f[0] == "atts" and f[3] != "-")
            if f[0] == "att":
                key = hist.key_of_addr(f[3], h["accts"])
                d = f[4].split(",")
                st = hist.states_of(h["impl"][i])[0]
                if not faulted:
                    yield ("jliveatt %s %s %s %s" % (key.hex(), d[4], d[6], st), (i, 0, op[:160]))
                if ":" in h["impl"][i]:
                    yield ("jatt %s %s" % (key.hex(), f[4]), (i, 0, "release"))
            elif f[0] == "atts":
                sts = hist.states_of(h["impl"][i])
                pls = hist.payloads_of(h["impl"][i])
                for j, it in enumerate(f[4].split(";")):
                    adr, data = it.split(",", 1)
                    key = hist.key_of_addr(adr, h["accts"])
                    d = data.split(",")
                    if not faulted:
                        yield ("jliveatt %s %s %s %s" % (key.hex(), d[4], d[6], sts[j] if j < len(sts) else "?"), (i, j, op[:160]))
                for j, it in enumerate(f[4].split(";")):
                    adr, data = it.split(",", 1)
                    if j < len(pls) and pls[j]:
                        yield ("jatt %s %s" % (hist.key_of_addr(adr, h["accts"]).hex(), data), (i, j, "release"))
            elif f[0] == "prop":
                key = hist.key_of_addr(f[3], h["accts"])
                d = f[4].split(",")
                st = hist.states_of(h["impl"][i])[0]
                if not faulted:
                    yield ("jliveprop %s %s %s" % (key.hex(), d[1], st), (i, 0, op[:160]))
                if ":" in h["impl"][i]:
                    yield ("jprop %s %s" % (key.hex(), f[4]), (i, 0, "release"))

    def first_use(keys_, rng_):
        """accounts still locked (first use after start-up), encrypted with different passphrases of the unlocker's list,
        addressed together in one batch / by concurrent scatter workers: every valid, advancing request must be signed"""
        H = []
        for q in range(6 if tier != "thorough" else 40):
            r2 = rng_.fork()
            accts_ = [hist.Acct("Wallet 1", "Account %d" % i_, keys_[i_], pass2=(i_ % 2 == 1) if q % 2 == 0 else (i_ % 3 != 0)) for i_ in range(4)]
            cfg_ = ["nocache"] + hist.config_lines(accts_, [("client1", "Wallet 1", ["All"])], [])
            items = ";".join(att_item("n:" + hx(a_.path), 1, 2 + q, 0) for a_ in r2.shuffle(accts_))
            ops_ = ["atts %s - - %s" % (hx("client1"), items)] + [att_line("client1", "n:" + hx(a_.path), 1, 9 + q, 0) for a_ in accts_[:2]]
            H.append({"cfg": cfg_, "ops": ops_, "accts": accts_, "opts": {}})
        # wide batches over validators with DIFFERENT histories (half of them have attested far ahead one at a time): each
        # entry is judged against its own key's history, whatever order the previous states are fetched or returned in
        for q in range(2 if tier != "thorough" else 8):
            r2 = rng_.fork()
            nw_ = 48 if q % 2 == 0 else 70
            wk_ = hist.interop_keys(build_harness(wd), 80)
            accts_ = [hist.Acct("Wallet 1", "Account %d" % i_, wk_[i_]) for i_ in range(nw_)]
            cfg_ = hist.config_lines(accts_, [("client1", "Wallet 1", ["All"])], [])
            ahead = set(r2.shuffle(list(range(nw_)))[:nw_ // 2])
            ops_ = [att_line("client1", "n:" + hx(accts_[i_].path), 20 + i_ % 5, 30 + i_ % 7, 0) for i_ in sorted(ahead)]
            order_ = r2.shuffle(accts_)
            ops_.append("atts %s - - %s" % (hx("client1"), ";".join(att_item(r2.choice(["n:" + hx(a_.path), "k:" + a_.pk.hex()]), 8, 10, 1) for a_ in order_)))
            ops_.append("atts %s - - %s" % (hx("client1"), ";".join(att_item("n:" + hx(a_.path), 10, 12, 2) for a_ in r2.shuffle(accts_))))
            H.append({"cfg": cfg_, "ops": ops_, "accts": accts_, "opts": {}})
        # a state read or write that FAILS WITHOUT TAKING EFFECT (read error, write refused before it reached the store), then
        # the very same duty again: nothing was recorded and nothing released, so it still advances and must be signed — singles
        # and batches, for keys signed before in this run and for fresh ones
        for flt in ("s", "b", "f0"):
            accts_, perms_, adm_ = hist.std_config(keys_, nacct=4, locked=False)
            cfg_ = hist.config_lines(accts_, perms_, adm_)
            na, nb, nc = ("n:" + hx(accts_[i_].path) for i_ in range(3))
            ka = "k:" + accts_[0].pk.hex()
            b2 = lambda s_, t_, tg_: ";".join([att_item(na, s_, t_, tg_), att_item(nb, s_, t_, tg_)])
            H.append({"cfg": cfg_, "accts": accts_, "opts": {}, "ops": [
                att_line("client1", na, 1, 2, 0), att_line("client1", na, 2, 3, 0, faults=flt), att_line("client1", ka, 2, 3, 0), att_line("client1", na, 3, 4, 1),
                "atts %s - %s %s" % (hx("client1"), flt, b2(4, 5, 0)), "atts %s - - %s" % (hx("client1"), b2(4, 5, 0)), "atts %s - - %s" % (hx("client1"), b2(5, 6, 1)),
                att_line("client1", nc, 1, 2, 0, faults=flt), att_line("client1", nc, 1, 2, 0),
                prop_line("client1", na, 5, 0), prop_line("client1", na, 6, 0, faults=flt), prop_line("client1", ka, 6, 0), prop_line("client1", na, 7, 1), "export"]})
        # batches of hundreds and thousands of validators at the ruler (synthetic keys): every valid, advancing entry is approved,
        # in one batch exactly as one at a time
        a2_, p2_, ad2_ = hist.std_config(keys_, nacct=2, locked=False)
        H.append({"cfg": hist.config_lines(a2_, p2_, ad2_), "accts": a2_, "opts": {},
                  "ops": ["rbatch 400 0 1 2 0", "rbatch 3000 1000 1 2 0", "rbatch 1 5000 1 2 0", "rbatch 400 0 2 3 1", "rbatch 3000 1000 2 3 1"],
                  "rbatch_want": [400, 3000, 1, 400, 3000]})
        return H

    def judge(rep, dh, wd, all_h):
        for h in all_h:
            for i, w_ in enumerate(h.get("rbatch_want", [])):
                m_ = re.search(r"A=(\d+)", h["impl"][i]) if i < len(h["impl"]) else None
                if m_ and int(m_.group(1)) != w_:
                    rep.violation("refused-advancing", "in a batch of %d valid, advancing attestations for distinct validators only %s were approved" % (w_, m_.group(1)),
                                  {"config": h["cfg"], "ops": h["ops"][:i + 1], "gomaxprocs": h.get("gomaxprocs")})
                    return True
        bad = judge_lines(rep, all_h, live_lines, "requests_judged_for_liveness")
        bad = [b for b in bad if b[-1] == "REFUSED-ADVANCING"]
        if bad:
            hi, i, j, op, verdict = bad[0]
            rep.violation("refused-advancing", "a well-formed, authorised request advancing on everything released for its key was not signed",
                          {"config": all_h[hi]["cfg"], "ops": all_h[hi]["ops"][:i + 1], "position": j, "gomaxprocs": all_h[hi].get("gomaxprocs")})
            return True
        return False

    def twins(keys, rng):
        return []
    all_h = run_hist_property(rep, tier, seed, wd, "C09", SIGN_KINDS + ("export",), opts, sizes, judges=[judge],
                              nontrivial=lambda h: any(o.startswith("atts") and ";" in o for o in h["ops"]), corpus=False, extra_hist=first_use)
    # (c) batch vs one-at-a-time on a twin instance
    pairs = []
    for h in all_h:
        idx = [i for i, o in enumerate(h["ops"]) if o.startswith("atts") and ";" in o]
        if not idx:
            continue
        i = idx[-1]
        f = h["ops"][i].split()
        singles = ["att %s %s %s %s -" % (f[1], f[2], it.split(",", 1)[0], it.split(",", 1)[1]) for it in f[4].split(";")]
        a = dict(h, ops=h["ops"][:i + 1])
        b = dict(h, ops=h["ops"][:i] + singles)
        pairs.append((a, b, i, len(singles)))
    byp = {}
    for a, b, i, n in pairs:
        byp.setdefault(a.get("gomaxprocs"), []).append((a, b, i, n))
    ntw = 0
    for p, lst in byp.items():
        env = {"GOMAXPROCS": str(p)} if p else None
        flat = [x for a, b, i, n in lst for x in (a, b)]
        engines.exec_histories(dh, wd, flat, env=env)
        for a, b, i, n in lst:
            ntw += 1
            batch = hist.states_of(a["impl"][i]) if i < len(a["impl"]) else []
            seq = [hist.states_of(l)[0] for l in b["impl"][i:i + n]]
            mb = hist.states_of(a["model"][i]) if i < len(a["model"]) else []
            ms = [hist.states_of(l)[0] for l in b["model"][i:i + n]]
            rep.dist("twin_batch_size", str(n))
            if batch != seq:
                rep.violation("batch-differs-from-sequence", "a batch of well-formed requests with distinct keys gives other verdicts than its entries one at a time",
                              {"config": a["cfg"], "batch_history": a["ops"], "sequential_history": b["ops"], "batch": batch, "sequential": seq, "gomaxprocs": p})
                found = True
                break
            if mb != ms:
                rep.broken.append(("model:batch-vs-sequence", json.dumps({"ops": a["ops"][-1][:300]}), False))
    rep.cov["twin_pairs"] = ntw


def gob_records(dh, specs):
    from common import sh
    rc, out, err = sh([dh, "gob"], input="\n".join(specs) + "\n")
    if rc != 0:
        raise Broken("gob-engine", err[-1000:])
    return [bytes.fromhex(l.strip()) for l in out.splitlines()]


def judge_after_import(rep, dh, wd, all_h):
    """an instance that imported (slot, source, target) for a key must refuse what the exporting instance — which had
    signed up to those values — refuses: a proposal at or below the slot, an attestation at or below the target or
    with a lower source"""
    for h in all_h:
        if not h.get("imports"):
            continue
        imp_ = {}
        for i, op in enumerate(h["ops"]):
            f = op.split()
            if f[0] == "importsvc" and i < len(h["impl"]) and h["impl"][i].strip() == "ok":
                imp_[bytes.fromhex(f[1])] = (int(f[2]), int(f[3]), int(f[4]))
        rel = hist.released(h["ops"], h["impl"], h["accts"])
        first_imp = min([i for i, op in enumerate(h["ops"]) if op.startswith("importsvc")] or [10 ** 9])
        for (k, key, data, sig, i, j, st) in rel:
            if i < first_imp or key not in imp_:
                continue
            slot, src, tgt = imp_[key]
            d = data.split(",")
            bad_ = (k == "prop" and slot >= 0 and int(d[1]) <= slot) or \
                   (k == "att" and tgt >= 0 and (int(d[6]) <= tgt or int(d[4]) < src))
            if bad_:
                rep.violation("decision-differs-after-import", "after importing protection data the instance signed a request the exporting instance refuses",
                              {"config": h["cfg"], "ops": h["ops"][:i + 1], "imported": {"slot": slot, "source": src, "target": tgt}})
                return True
    return False



def live_import_histories(keys_, rng_, tier):
    """an export imported through rules.Service.ImportSlashingProtection into an instance that is RUNNING and has
    already been asked about the key (a refused request leaves its store empty): afterwards it must decide like
    the exporting instance"""
    accts_, perms_, admins_ = hist.std_config(keys_, nacct=5)
    cfg_ = hist.config_lines(accts_, perms_, admins_)
    H = []
    for q in range(4 if tier != "thorough" else 40):
        r2 = rng_.fork()
        a = r2.choice([x for x in accts_ if x.unlockable and x.wallet == "Wallet 1"])
        spell = ["n:" + hx(a.path), "k:" + a.pk.hex(), "k:" + a.pk.hex() + "00", "b:%s:%s" % (hx(a.path), a.pk.hex())]
        n0 = spell[0]
        slot, src, tgt = 50 + r2.below(50), 10 + r2.below(10), 30 + r2.below(10)
        ops_ = []
        if r2.chance(0.5):
            ops_.append(att_line("client1", n0, 7, 7, 0))                      # refused (target <= source): store stays empty
        else:
            ops_ += [prop_line("client1", n0, 3, 0), att_line("client1", n0, 1, 2, 0)]   # low values signed before
        ops_ += ["export", "importsvc %s %d %d %d" % (a.pk.hex(), slot, src, tgt), "export",
                 prop_line("client1", r2.choice(spell), slot - 1 - r2.below(3), 1), prop_line("client1", spell[2], slot, 1), prop_line("client1", r2.choice(spell), slot, 1),
                 att_line("client1", r2.choice(spell), src - 1, tgt + 1, 1), att_line("client1", spell[2], src, tgt, 1),
                 att_line("client1", r2.choice(spell), src, tgt, 1), att_line("client1", r2.choice(spell), src, tgt - 1, 1), "export",
                 prop_line("client1", n0, slot + 1, 2), att_line("client1", n0, src, tgt + 1, 2), "export", "restart", "export"]
        H.append({"cfg": cfg_, "ops": ops_, "accts": accts_, "opts": {}, "imports": True})
    return H


def c11(rep, tier, seed, wd, replay):
    import imp
    rep.cov["rule"] = ("(a) clean histories with frequent exports: every export must state exactly the highest released slot/source/"
                       "target per key (Lean judge) and equal the model's; restarts in between; (b) stores pre-populated with records "
                       "written by Go's own encoding/gob (legacy format; values -1,0,small,2^31,2^63-1, mixed) opened by the real rules "
                       "service and probed around the watermarks, the Lean gob model decoding the same bytes; (c) export by the binary -> "
                       "import into an empty store by the binary -> identical probes on original and copy must give identical verdicts")
    rep.assumptions += ["export exactness is judged on fault-free histories of well-formed requests (the property's quantifier)",
                        "the Lean gob model covers the streams Go's encoder produces for the two legacy structs, not arbitrary gob streams"]
    prove(rep, "C11")
    dh = build_harness(wd)
    keys = hist.interop_keys(dh)
    rng = Rng(seed * 15485863 + 11)
    # (a)
    sizes = tier_sizes(tier, (40, 40), (300, 100))
    opts = {"clean": True, "huge": False}

    def exp_lines(h):
        if h.get("imports"):
            return          # after an import the export states imported values too: compared with the model only
        for i, op in enumerate(h["ops"]):
            f = op.split()
            if i >= len(h["impl"]):
                break
            if f[0] in ("att", "prop") and ":" in h["impl"][i]:
                yield ("%s %s %s" % ("jatt" if f[0] == "att" else "jprop", hist.key_of_addr(f[3], h["accts"]).hex(), f[4]), (i, 0, "release"))
            elif f[0] == "atts":
                pls = hist.payloads_of(h["impl"][i])
                for j, it in enumerate(f[4].split(";")):
                    adr, data = it.split(",", 1)
                    if j < len(pls) and pls[j]:
                        yield ("jatt %s %s" % (hist.key_of_addr(adr, h["accts"]).hex(), data), (i, j, "release"))
            elif f[0] == "export":
                ex = imp.parse_export(h["impl"][i])
                if ex is None:
                    yield ("jexport 00 0 0 0", (i, 0, "export-failed"))
                    continue
                ks = set(ex) | set(a.pk.hex() for a in h["accts"])
                for k in sorted(ks):
                    v = ex.get(k, ("-1", "-1", "-1"))
                    yield ("jexport %s %s %s %s" % (k, v[0], v[1], v[2]), (i, 0, k[:16]))

    def judge(rep, dh, wd, all_h):
        bad = judge_lines(rep, all_h, exp_lines, "export_entries_judged")
        bad = [b for b in bad if b[-1] in ("EXPORT-NOT-EXACT",) or b[3] == "export-failed"]
        if bad:
            hi, i, j, what, verdict = bad[0]
            rep.violation("export-not-exact", "exported protection data is not exactly the highest released slot/source/target",
                          {"config": all_h[hi]["cfg"], "ops": all_h[hi]["ops"][:i + 1], "key": what, "export": all_h[hi]["impl"][i][:400]})
            return True
        return False
    o2 = dict(opts)

    def refused_writes(keys_, rng_):
        """the store refuses a write (badger's ErrBlockedWrites, as while it closes) on single requests: whatever is then
        answered, the export states exactly what was released — before and after a restart"""
        accts_, perms_, admins_ = hist.std_config(keys_, nacct=4, locked=False)
        cfg_ = hist.config_lines(accts_, perms_, admins_)
        H = []
        for kind_ in ("att", "prop"):
            n0_, n1_ = "n:" + hx(accts_[0].path), "k:" + accts_[1].pk.hex()
            if kind_ == "att":
                ops_ = [att_line("client1", n0_, 1, 2, 0), att_line("client1", n0_, 2, 3, 0, faults="b"), "export", att_line("client1", n1_, 4, 5, 0, faults="b"),
                        "export", "restart", "export", att_line("client1", n0_, 2, 3, 1), att_line("client1", n1_, 4, 5, 1), "export"]
            else:
                ops_ = [prop_line("client1", n0_, 10, 0), prop_line("client1", n0_, 11, 0, faults="b"), "export", prop_line("client1", n1_, 7, 0, faults="b"),
                        "export", "restart", "export", prop_line("client1", n0_, 11, 1), prop_line("client1", n1_, 7, 1), "export"]
            H.append({"cfg": cfg_, "ops": ops_, "accts": accts_, "opts": {}})
        return H
    live_imports = lambda keys_, rng_: live_import_histories(keys_, rng_, tier) + refused_writes(keys_, rng_)
    run_hist_property(rep, tier, seed, wd, "C11", SIGN_KINDS + ("export", "restart", "importsvc"), o2, sizes, judges=[judge, judge_after_import], corpus=False,
                      nontrivial=lambda h: sum(1 for o in h["ops"] if o == "export") >= 2, extra_hist=live_imports)
    # (b) legacy gob records
    vals = [-1, 0, 1, 5, 1000, 1 << 31, (1 << 63) - 1, (1 << 62)]
    accts, perms, admins = hist.std_config(keys, nacct=5)
    hs = []
    ngob = 12 if tier != "thorough" else 120
    for _ in range(ngob):
        r = rng.fork()
        specs, where = [], []
        for a in accts[:4]:
            if r.chance(0.7):
                s = r.choice(vals)
                t = r.choice([v for v in vals if v >= s] or [s])
                specs.append("att %d %d" % (s, t))
                where.append(a.pk + b"\x02")
            if r.chance(0.7):
                specs.append("prop %d" % r.choice(vals))
                where.append(a.pk + b"\x03")
        recs = gob_records(dh, specs) if specs else []
        raws = list(zip(where, recs))
        cfg = hist.config_lines(accts, perms, admins, raws)
        ops = ["export"]
        for sp, (k, _) in zip(specs, raws):
            a = [x for x in accts if x.pk == k[:48]][0]
            n0 = "n:" + hx(a.path)
            f = sp.split()
            if f[0] == "att":
                s, t = int(f[1]), int(f[2])
                for (ps_, pt) in [(max(s, 0), max(t, 0)), (max(s - 1, 0), max(t, 0) + 1), (max(s, 0), max(t, 0) + 1), (max(s, 0) + 1, max(t, 0) + 2)]:
                    if pt < (1 << 64) and ps_ < (1 << 64):
                        ops.append(att_line("client1", n0, ps_, pt, 0))
            else:
                s = int(f[1])
                for q in [max(s, 0), max(s, 0) + 1]:
                    ops.append(prop_line("client1", n0, q, 0))
        ops += ["export", "restart", "export"]
        want = {}
        for sp, (k, _) in zip(specs, raws):
            w = want.setdefault(k[:48].hex(), ["-1", "-1", "-1"])
            f = sp.split()
            if f[0] == "att":
                w[1], w[2] = f[1], f[2]
            else:
                w[0] = f[1]
        hs.append({"cfg": cfg, "ops": ops, "accts": accts, "opts": {}, "want": want})
    # large stores: every record must come out with its own values (not those of a record further along)
    # (1100 keys = 2200 records: beyond any page / batch size of a few hundred or a thousand records)
    for nk in ([130, 1100] if tier != "thorough" else [51, 101, 130, 300, 1100, 2600]):
        raws_l, ks = imp.big_store_raws(nk, step=7)
        cfg = hist.config_lines(accts, perms, admins) [:-1] + raws_l + ["begin"]
        want = {}
        for i, k in enumerate(ks):
            s_ = 100000 - 7 * i
            want[k.hex()] = [str(s_ + 7), str(s_), str(s_ + 1)]
        hs.append({"cfg": cfg, "ops": ["export", "restart", "export"], "accts": accts, "opts": {}, "want": want, "large": True})
    engines.exec_histories(dh, wd, hs)
    rep.cov["legacy_record_histories"] = len(hs)
    from common import run_model as _rm
    found_legacy = False
    jl, jm = [], []
    for hi_, h in enumerate(hs):
        ex = imp.parse_export(h["impl"][0]) if h["impl"] else None
        if ex is None:
            ex = {}
        for k, w in h["want"].items():
            g = ex.get(k, ("?", "?", "?"))
            if "?" in g:
                g = ("-9", "-9", "-9")
            jl.append("jlegacy %s %s %s %s %s %s" % (g[0], g[1], g[2], w[0], w[1], w[2]))
            jm.append((hi_, k))
    if jl:
        for (hi_, k), o in zip(jm, _rm(jl)):
            if o.strip() != "ok":
                found_legacy = True
                if hs[hi_].get("large"):
                    rep.violation("export-not-exact-large-store", "in a store of several hundred records the export of a key does not state the values its own records hold",
                                  {"config": hs[hi_]["cfg"], "ops": ["export"], "key": k, "exported": list(ex.get(k, ())), "expected": hs[hi_]["want"][k]})
                else:
                    rep.violation("legacy-record-not-honoured", "the export of a key whose records are in the old (gob) format does not state the values those records hold",
                                  {"config": hs[hi_]["cfg"], "ops": ["export"], "key": k, "export": hs[hi_]["impl"][0][:600], "expected": hs[hi_]["want"][k]})
                break
    for h in hs:
        rep.count("gob" + json.dumps(h["cfg"][-6:]), True)
        if h["bad"]:
            i, op, il, ml = h["bad"][0]
            # a legacy record that is not honoured shows as: a request at/below the stored watermark gets signed
            rep.broken.append(("correspondence:legacy-gob-records(model Gob decode + rules vs implementation)",
                               json.dumps({"config": h["cfg"], "ops": h["ops"][:i + 1], "impl": il[:200], "model": ml[:200]}), found_legacy))
            break
    # (c) export -> import into an empty store -> same decisions
    scen = []
    nrt = 40 if tier != "thorough" else 600
    for _ in range(nrt):
        r = rng.fork()
        ops = []
        for _ in range(2 + r.below(6)):
            k = r.choice(imp.KEYS)
            if r.chance(0.6):
                s_ = r.below(25)
                ops.append("probeatt %s %d %d" % (k.hex(), s_, s_ + 1 + r.below(4)))
            else:
                ops.append("probeprop %s %d" % (k.hex(), r.below(30)))
        ops += ["export", "roundtrip"]
        for k in imp.KEYS:
            for _ in range(2):
                s_ = r.below(30)
                ops.append("probeatt %s %d %d" % (k.hex(), s_, s_ + 1 + r.below(3)))
                ops.append("probeprop %s %d" % (k.hex(), r.below(32)))
        ops += ["export", "exportb"]
        scen.append((["begin"], ops))
    # keys whose only attestation so far is the GENESIS one (source 0, target 0 — the one case in which target is not above
    # source), alone and beside a proposal / beside keys with ordinary histories
    for q_ in range(4):
        kg, ko = imp.KEYS[q_ % len(imp.KEYS)], imp.KEYS[(q_ + 1) % len(imp.KEYS)]
        ops = ["probeatt %s 0 0" % kg.hex()] + (["probeprop %s 0" % kg.hex()] if q_ % 2 else []) + (["probeatt %s 0 1" % ko.hex(), "probeprop %s 4" % ko.hex()] if q_ >= 2 else [])
        ops += ["export", "roundtrip", "probeatt %s 0 0" % kg.hex(), "probeatt %s 0 0" % ko.hex(), "probeatt %s 0 1" % kg.hex(), "probeprop %s 0" % kg.hex(), "export", "exportb"]
        scen.insert(0, (["begin"], ops))
    res = run_imp_scenarios(rep, dh, wd, scen, label="roundtrip")
    for cfg, ops, impl, model in res:
        seen = False
        for op, il in zip(ops, impl):
            if op == "roundtrip":
                seen = True
            elif seen and op.startswith("probe"):
                v = il.split()
                if len(v) == 2 and v[0] != v[1]:
                    rep.violation("roundtrip-decision-differs", "original and re-imported instance decide differently on the same probe",
                                  {"config": cfg, "ops": ops[:ops.index(op) + 1], "verdicts": il})
                    return
    rep.cov["roundtrip_scenarios"] = len(scen)


def run_conc(rep, dh, wd, keys, rng, n_steered, n_soak, soak_size, gomaxprocs, want_lin=True, want_slash=True, n_cross=0, cross_kind=None, n_deadline=0, steer_kinds=None):
    """steered schedules + soak; returns (found_violation, stats)"""
    import conc
    from common import run_impl, run_model
    accts, perms, admins = hist.std_config(keys, nacct=5)
    # (the locker has served 1500 other keys before each scenario: whatever it does once it holds many entries applies)
    cfg = ["lockwarm 1500"] + hist.config_lines(accts, perms, admins)
    found = False
    for p in gomaxprocs:
        env = {"GOMAXPROCS": str(p)} if p else None
        scen = []
        for _ in range(n_steered):
            kind, prefix, parks, cops, workers = conc.steered(rng.fork(), accts, steer_kinds)
            scen.append((kind, prefix, parks, cops, workers))
        for _ in range(n_soak):
            scen.append(("soak", [], "-", conc.soak(rng.fork(), accts, soak_size), 32))
        for _ in range(n_cross):
            pre, cops = conc.cross_soak(rng.fork(), accts, soak_size, cross_kind)
            scen.append(("cross-soak", pre, "-", cops, 32))
        for _ in range(n_deadline):
            parks, cops = conc.deadline_soak(rng.fork(), accts, 40)
            scen.append(("deadline-soak", [], parks, cops, 0))
            pre, cops = conc.dyn_soak(rng.fork(), accts, 150)
            scen.append(("dyn-soak", pre, "-", cops, 0))
        lines = []
        for kind, prefix, parks, cops, workers in scen:
            lines += ["reset"] + cfg + conc.scenario_lines(prefix, parks, cops, workers)
        impl, crashed, err = run_impl(dh, wd, lines, env=env, timeout=1200)
        if crashed and not any(o.startswith("TIMEOUT") for o in impl) and not any(w_ in err for w_ in ("panic:", "fatal error:", "DATA RACE")):
            # the harness process ended without a watchdog report and without a Go panic / runtime error of its own (killed from
            # outside, out of memory, ...): run the same input once more; whatever it does then is what is judged
            rep.cov["harness_reruns"] = rep.cov.get("harness_reruns", 0) + 1
            rep.cov.setdefault("harness_rerun_stderr", []).append(err[-300:])
            impl, crashed, err = run_impl(dh, wd, lines, env=env, timeout=1200)
        # walk the output
        pos = 0
        jl, jmeta = [], []
        slash_h = []
        for si, (kind, prefix, parks, cops, workers) in enumerate(scen):
            n = 1 + len(prefix) + 1 + len(cops) + 2
            out = impl[pos:pos + n]
            pos += n
            rep.dist("scenario", kind)
            if len(out) < n or any(o.startswith("TIMEOUT") for o in out):
                to = [o for o in out if o.startswith("TIMEOUT")]
                if to:
                    rep.violation("deadlock", "concurrent requests did not all complete within the watchdog: " + to[0],
                                  {"config": cfg, "scenario": conc.scenario_lines(prefix, parks, cops, workers), "gomaxprocs": p})
                    found = True
                elif crashed and ("panic:" in err or "fatal error:" in err):
                    # a Go panic / runtime error inside the instance while this scenario ran: the scenario is the failing input
                    rep.violation("crash-under-concurrency", "the instance died while serving concurrent requests: " + (err[err.find("panic:"):] if "panic:" in err else err[err.find("fatal error:"):])[:160].replace("\n", " "),
                                  {"config": cfg, "scenario": conc.scenario_lines(prefix, parks, cops, workers), "gomaxprocs": p, "stderr": err[-1500:]})
                    found = True
                elif crashed:
                    rep.broken.append(("implementation-crash:conc", err, False))
                break
            go_line = out[1 + len(prefix) + 1 + len(cops)]
            final = out[-1]
            res = conc.parse_go(go_line)
            rep.count("%s|%s|%s" % (p, kind, json.dumps(cops)), True)
            # released signatures for the slashing judge
            ops_seq = prefix + [op for _, op in cops]
            impl_seq = out[1:1 + len(prefix)] + [r_[2] for r_ in res]
            slash_h.append({"cfg": cfg, "ops": ops_seq, "impl": impl_seq, "accts": accts, "scen": (kind, prefix, parks, cops, workers)})
            if want_lin and kind not in ("soak", "cross-soak", "deadline-soak", "dyn-soak"):
                jl += ["reset"] + cfg + prefix + ["lin-begin"]
                for (d, op), (ti, tr, rs) in zip(cops, res):
                    jl.append("lin-op %d %d %s %s" % (ti, tr, rs.replace(" ", "+"), op))
                jl.append("lin-end " + final)
                jmeta.append((si, len(prefix) + 1 + len(cops) + 2))
        # judge: slashability of everything released
        bad, nrel = engines.judge_slashing(slash_h, orderfree=True) if want_slash else ([], 0)
        rep.cov["released_signatures_judged"] = rep.cov.get("released_signatures_judged", 0) + nrel
        if bad:
            hi = bad[0][0]
            kind, prefix, parks, cops, workers = slash_h[hi]["scen"]
            rep.violation("concurrent-slashable", "two concurrently issued conflicting requests were both signed (%s)" % bad[0][-1],
                          {"config": cfg, "scenario": conc.scenario_lines(prefix, parks, cops, workers), "gomaxprocs": p,
                           "observed": slash_h[hi]["impl"]})
            found = True
        if jl:
            out = run_model(jl)
            # outputs: for each scenario: begin + prefix outs + lin-begin + lin-op oks + verdict
            verdicts = [o for o in out if o.startswith("LINEARIZABLE") or o.startswith("NOT-LINEARIZABLE")]
            rep.cov["schedules_judged_linearizable"] = rep.cov.get("schedules_judged_linearizable", 0) + sum(1 for v in verdicts if v == "LINEARIZABLE")
            for (si, _), v in zip(jmeta, verdicts):
                if v != "LINEARIZABLE":
                    kind, prefix, parks, cops, workers = scen[si]
                    rep.violation("not-linearizable", "no order of the concurrent requests compatible with real time reproduces the observed verdicts and final store on the sequential Lean model",
                                  {"config": cfg, "scenario": conc.scenario_lines(prefix, parks, cops, workers), "gomaxprocs": p})
                    found = True
                    break
    return found


def lock_trace_histories(rep, tier, seed, wd, pid):
    """(a) the recorded locker/store call sequence of every request equals the model's"""
    dh = build_harness(wd)
    keys = hist.interop_keys(dh)
    rng = Rng(seed * 2654435761 + sum(ord(c) for c in pid))
    n_hist, n_ops = tier_sizes(tier, (20, 30), (200, 60))
    hs = engines.gen_histories(rng, keys, n_hist, n_ops, {"faults": False, "huge": True, "final_export": False})
    for h in hs:
        h["cfg"] = ["locktrace"] + h["cfg"]
        ops = []
        for op in h["ops"]:
            ops.append(op)
            if op.split()[0] in SIGN_KINDS:
                ops.append("ltrace")
        h["ops"] = ops
    crashed, err = engines.exec_histories(dh, wd, hs)
    if crashed:
        rep.broken.append(("implementation-crash:locktrace", err, False))
    ntr = 0
    first_bad = None
    for h in hs:
        for i, op in enumerate(h["ops"]):
            if op == "ltrace" and i < len(h["impl"]):
                ntr += 1
                tr = h["impl"][i]
                rep.dist("trace_shape", "none" if tr == "-" else "%dL" % tr.count("L:"))
                rep.count("trace|" + h["ops"][i - 1], tr != "-")
        bad = [b for b in h["bad"]]
        if bad and first_bad is None:
            first_bad = (h, bad[0])
    rep.cov["lock_traces_compared"] = ntr
    if hs:
        h = hs[0]
        idx = [i for i, o in enumerate(h["ops"]) if o == "ltrace"][:2]
        rep.sample({"request": [h["ops"][i - 1][:120] for i in idx], "trace": [h["impl"][i] for i in idx if i < len(h["impl"])]})
    return first_bad, dh, keys, rng


def startup_stage(rep, dh, wd, keys, found, first_bad=None):
    # start-up: the store already holds records (old gob format / current format / none) and the first state write after the
    # rules service starts stalls (slow disk).  Whatever else the service does with the store while it starts must not undo
    # what the first requests record: a request conflicting with one answered earlier is refused.
    accts, perms, admins = hist.std_config(keys, nacct=4, locked=False)
    ns_ = ["n:" + hx(a.path) for a in accts[:3]]
    gob_a, gob_p = gob_records(dh, ["att 5 6", "prop 5"])
    cur_a, cur_p = bytes([1]) + (5).to_bytes(8, "little") + (6).to_bytes(8, "little"), bytes([1]) + (5).to_bytes(8, "little")
    SH = []
    for label, ra, rp in (("legacy", gob_a, gob_p), ("current", cur_a, cur_p), ("empty", None, None)):
        for stall in (250, 0):
            raws = [(a.pk + b"\x02", ra) for a in accts[:3]] + [(a.pk + b"\x03", rp) for a in accts[:3]] if ra else []
            cfg = ["stallfirst %d" % stall] * (1 if stall else 0) + hist.config_lines(accts, perms, admins, raws)
            ops = [att_line("client1", n_, 6, 7, 0) for n_ in ns_] + [prop_line("client1", n_, 6, 0) for n_ in ns_] + ["pause %d" % (stall + 150)] + \
                  [att_line("client1", n_, 6, 7, 1) for n_ in ns_] + [prop_line("client1", n_, 6, 1) for n_ in ns_] + \
                  [att_line("client1", n_, 5, 8, 1) for n_ in ns_] + [att_line("client1", n_, 7, 8, 0) for n_ in ns_] + ["export"]
            SH.append({"cfg": cfg, "ops": ops, "accts": accts, "opts": {}, "label": "startup-%s-stall%d" % (label, stall)})
    # the same with the store's maintenance goroutine running (server.rules.periodic-pruning: true) on a store that holds
    # several hundred more old-format records of other validators
    fill = [(bytes([0xA2]) + bytes(45) + bytes([q >> 8, q & 255]) + b"\x02", gob_a) for q in range(400)] + \
           [(bytes([0xA2]) + bytes(45) + bytes([q >> 8, q & 255]) + b"\x03", gob_p) for q in range(400)]
    raws_ = [(a.pk + b"\x02", gob_a) for a in accts[:3]] + [(a.pk + b"\x03", gob_p) for a in accts[:3]] + fill
    cfg_ = ["pruning"] + hist.config_lines(accts, perms, admins, raws_)
    ops_ = [att_line("client1", n_, 6, 7, 0) for n_ in ns_] + [prop_line("client1", n_, 6, 0) for n_ in ns_] + ["pause 1500"] + \
           [att_line("client1", n_, 6, 7, 1) for n_ in ns_] + [prop_line("client1", n_, 6, 1) for n_ in ns_] + ["restart"] + \
           [att_line("client1", n_, 6, 7, 2) for n_ in ns_] + [prop_line("client1", n_, 6, 2) for n_ in ns_] + [att_line("client1", n_, 7, 8, 0) for n_ in ns_]
    SH.append({"cfg": cfg_, "ops": ops_, "accts": accts, "opts": {}, "label": "startup-legacy-pruning"})
    if REPLAY is not None:
        rh = replay_history()
        SH = [rh] if rh and any(o.startswith("pause") for o in rh["ops"]) else []
    if SH:
        crashed, err = engines.exec_histories(dh, wd, SH)
        if crashed:
            rep.broken.append(("implementation-crash:startup", err[-1500:], False))
        for h in SH:
            rep.dist("scenario", h.get("label", "startup-replay"))
            rep.count("startup|" + json.dumps(h["cfg"][:2]) + str(len(h["cfg"])), True)
            for (i, op, il, ml) in h["bad"]:
                if op.split()[0] in ("att", "prop") and "S" in hist.states_of(il) and "S" not in hist.states_of(ml) and not found:
                    rep.violation("lost-update-at-startup", "a request conflicting with one answered earlier was signed: what the earlier request recorded was undone while the service started",
                                  {"config": h["cfg"], "ops": h["ops"][:i + 1], "impl": il[:120], "model": ml[:120]})
                    found = True
            if h["bad"] and not found and first_bad is None:
                i, op, il, ml = h["bad"][0]
                rep.broken.append(("correspondence:startup(model vs implementation on a pre-filled store)",
                                   json.dumps({"config": h["cfg"], "ops": h["ops"][:i + 1], "impl": il[:300], "model": ml[:300]}), found))
    return found


def c04(rep, tier, seed, wd, replay):
    rep.cov["rule"] = ("(a) for seeded request histories the recorded sequence of locker calls and store accesses of every request "
                       "(PreLock, Lock k.., PostLock, fetches, store, Unlock .. reversed; none for refused/duplicate requests) must equal "
                       "the Lean model's; (b) steered schedules: 2-5 concurrent single/batch/proposal requests over shared keys, a request "
                       "parked between its read and its write so an unprotected rival would overlap; invocation/response times recorded; the "
                       "Lean driver searches for an order compatible with real time in which the sequential model reproduces verdicts and "
                       "final export (linearizability), and judges released signatures for slashability; (c) soak: 150 mixed requests on "
                       "32 workers; non-trivial = schedule or trace with at least one lock acquisition")
    rep.assumptions += ["Go's sync.Mutex and scheduler are modelled (any interleaving of enabled steps); real interleavings are sampled and steered, only the model's are covered universally",
                        "badger Update / WriteBatch.Flush are atomic"]
    prove(rep, "C04")
    first_bad, dh, keys, rng = lock_trace_histories(rep, tier, seed, wd, "C04")
    ns, nsoak, ssize = tier_sizes(tier, (60, 2, 150), (1200, 10, 400))
    found = run_conc(rep, dh, wd, keys, rng, ns, nsoak, ssize, [None] if tier != "thorough" else [2, 16, 128], n_cross=2 if tier != "thorough" else 10)
    found = startup_stage(rep, dh, wd, keys, found, first_bad)
    if first_bad is not None:
        h, (i, op, il, ml) = first_bad
        rep.broken.append(("correspondence:lock-trace(model lock protocol vs ruler+locker calls)",
                           json.dumps({"config": h["cfg"], "ops": h["ops"][:i + 1], "impl": il[:300], "model": ml[:300]}), found))


def c15(rep, tier, seed, wd, replay):
    rep.cov["rule"] = ("(a) lock-call traces as in C04: every Lock lies between PreLock and PostLock, Unlocks follow the rules call in reverse "
                       "order, a failed duplicate check makes no lock call; (b) watchdog: concurrent batches naming shared keys in opposite, "
                       "nested and crossing orders, arriving while others are parked inside their critical section, and sustained random load, "
                       "must all return within 30 s, under several GOMAXPROCS; non-trivial = scenario with >=2 concurrent requests sharing a key")
    rep.assumptions += ["a blocked sync.Mutex.Lock proceeds once the mutex is released (no starvation assumed for the watchdog horizon)"]
    prove(rep, "C15")
    first_bad, dh, keys, rng = lock_trace_histories(rep, tier, seed, wd, "C15")
    ns, nsoak, ssize = tier_sizes(tier, (40, 3, 200), (600, 12, 600))
    found = run_conc(rep, dh, wd, keys, rng, ns, nsoak, ssize, [2, None] if tier != "thorough" else [2, 16, 128], want_lin=False, want_slash=False,
                     n_deadline=3 if tier != "thorough" else 30)
    # wide batches: several hundred distinct keys in one request (whatever maps keys to locks must keep distinct keys
    # apart — with n keys, n(n-1)/2 pairs are exercised at once), overlapping with other wide batches and singles
    import conc as conc_
    from common import run_impl as _ri
    nk = 200 if tier != "thorough" else 1000
    wkeys = hist.interop_keys(dh, nk + 2)
    waccts = [hist.Acct("Wallet 1", "Account %d" % i_, wkeys[i_]) for i_ in range(nk)]
    wcfg = hist.config_lines(waccts, [("client1", "Wallet 1", ["All"])], [])
    for wi in range(1 if tier != "thorough" else 4):
        r_ = rng.fork()
        cops = []
        for b_ in range(4):
            sub = r_.shuffle(waccts)[:nk - r_.below(nk // 3)]
            cops.append((b_ * 3, conc_.atts_op([conc_.att_item(conc_.name(a_), 1, 5 + b_, b_) for a_ in sub])))
        for a_ in r_.shuffle(waccts)[:20]:
            cops.append((r_.below(10), conc_.att_op(conc_.name(a_), 1, 20, 3)))
        sl = conc_.scenario_lines([], "-", cops, 0)
        io_, crashed_, err_ = _ri(dh, wd, ["reset"] + wcfg + sl, timeout=600)
        rep.dist("scenario", "wide-batch")
        rep.count("wide|%d|%d" % (wi, nk), True)
        if any(o.startswith("TIMEOUT") for o in io_):
            rep.violation("deadlock", "concurrent requests did not all complete within the watchdog (batches of several hundred distinct keys): " + [o for o in io_ if o.startswith("TIMEOUT")][0],
                          {"config": wcfg, "scenario": sl, "gomaxprocs": None})
            found = True
        elif crashed_:
            rep.broken.append(("implementation-crash:conc-wide", err_[-1500:], False))
    # bursts of SINGLE requests for many DISTINCT keys at the same instant (each makes its own synced store write; none shares a key
    # lock with another): whatever the store does with writes that arrive while another is being synced, all of them return
    for pgo in ([None, 4] if tier != "thorough" else [None, 2, 4, 64]):
        r_ = rng.fork()
        cops = []
        for wave in range(3):
            sub = r_.shuffle(waccts)[:60]
            cops += [(wave * 25, conc_.att_op(conc_.name(a_), 1, 40 + wave, wave)) for a_ in sub[:40]]
            cops += [(wave * 25 + 1, conc_.prop_op(conc_.name(a_), 40 + wave, wave)) for a_ in sub[40:]]
        sl = conc_.scenario_lines([], "-", cops, 0)
        io_, crashed_, err_ = _ri(dh, wd, ["reset"] + wcfg + sl, env={"GOMAXPROCS": str(pgo)} if pgo else None, timeout=600)
        rep.dist("scenario", "distinct-key-single-burst")
        rep.count("burst|%s" % pgo, True)
        if any(o.startswith("TIMEOUT") for o in io_):
            rep.violation("deadlock", "concurrent requests did not all complete within the watchdog (bursts of single requests for distinct keys): " + [o for o in io_ if o.startswith("TIMEOUT")][0],
                          {"config": wcfg, "scenario": sl, "gomaxprocs": pgo})
            found = True
            break
        elif crashed_:
            rep.broken.append(("implementation-crash:conc-burst", err_[-1500:], False))
    # first use after start-up: several requests for accounts that are still LOCKED arrive together, and each learns the lock state
    # a little later than the one before (`stalelock`: by the time it acts on "locked", others may have unlocked the account,
    # or be unlocking it) — all of them, and the requests that follow, complete
    faccts, fperms, fadm = hist.std_config(hist.interop_keys(dh), nacct=4, locked=False)
    fcfg = ["nocache", "stalelock 90"] + hist.config_lines(faccts, fperms, fadm)
    r32_ = (bytes([0xA7]) * 32).hex()
    sgn = lambda a_, tg_: "sign %s - %s %s,%s -" % (hx("client1"), conc_.name(a_), (DOM_RANDAO + bytes(28)).hex(), (bytes([tg_]) * 32).hex())
    for pgo in ([2, None] if tier != "thorough" else [1, 2, 16, None]):
        cops = [(q_, sgn(faccts[0], 0x10 + q_)) for q_ in range(5)] + [(2, conc_.att_op(conc_.key(faccts[0]), 1, 5, 0)), (3, conc_.atts_op([conc_.att_item(conc_.name(a_), 1, 6, 1) for a_ in faccts[:3]]))] + \
               [(400 + 10 * q_, sgn(faccts[q_ % 2], 0x30 + q_)) for q_ in range(4)] + [(900, conc_.att_op(conc_.name(faccts[0]), 1, 9, 2))]
        sl = conc_.scenario_lines([], "-", cops, 0)
        io_, crashed_, err_ = _ri(dh, wd, ["reset"] + fcfg + sl, env={"GOMAXPROCS": str(pgo)} if pgo else None, timeout=600)
        rep.dist("scenario", "first-use-stale-lock-state")
        rep.count("firstuse|%s" % pgo, True)
        if any(o.startswith("TIMEOUT") for o in io_):
            rep.violation("deadlock", "concurrent requests did not all complete within the watchdog (first use of accounts that are still locked): " + [o for o in io_ if o.startswith("TIMEOUT")][0],
                          {"config": fcfg, "scenario": sl, "gomaxprocs": pgo})
            found = True
            break
        elif crashed_:
            rep.broken.append(("implementation-crash:conc-first-use", err_[-1500:], False))
    # stores in which SEVERAL keys hold records that cannot be read or decoded: batches naming them fail (closed) and return;
    # everything else naming those keys afterwards completes too
    caccts, cperms, cadm = hist.std_config(hist.interop_keys(dh), nacct=6, locked=False)
    craws = [(caccts[0].pk + b"\x02", bytes([1]) + bytes(10)), (caccts[1].pk + b"\x02", bytes([9, 1, 2, 3])), (caccts[2].pk + b"\x02", bytes([1]) + bytes(3)),
             (caccts[3].pk + b"\x02", bytes([0x7f, 0x00])), (caccts[0].pk + b"\x03", bytes([1]) + bytes(3))]
    ccfg = hist.config_lines(caccts, cperms, cadm, craws)
    for pgo in ([2, None] if tier != "thorough" else [2, 3, 16, None]):
        r_ = rng.fork()
        cops = [(0, conc_.atts_op([conc_.att_item(conc_.name(a_), 1, 5, 0) for a_ in caccts[:6]])),
                (1, conc_.atts_op([conc_.att_item(conc_.name(a_), 1, 6, 1) for a_ in reversed(caccts[:5])])),
                (2, conc_.atts_op([conc_.att_item(conc_.name(caccts[3]), 1, 7, 2), conc_.att_item(conc_.name(caccts[0]), 1, 7, 2)]))] + \
               [(3, conc_.att_op(conc_.name(a_), 1, 9, 3)) for a_ in caccts[:5]] + [(3, conc_.prop_op(conc_.name(caccts[0]), 9, 0))]
        sl = conc_.scenario_lines([], "-", cops, 0)
        io_, crashed_, err_ = _ri(dh, wd, ["reset"] + ccfg + sl, env={"GOMAXPROCS": str(pgo)} if pgo else None, timeout=600)
        rep.dist("scenario", "corrupt-records")
        rep.count("corrupt|%s" % pgo, True)
        if any(o.startswith("TIMEOUT") for o in io_):
            rep.violation("deadlock", "concurrent requests did not all complete within the watchdog (several keys hold unreadable records): " + [o for o in io_ if o.startswith("TIMEOUT")][0],
                          {"config": ccfg, "scenario": sl, "gomaxprocs": pgo})
            found = True
            break
        elif crashed_:
            rep.broken.append(("implementation-crash:conc-corrupt", err_[-1500:], False))
    if first_bad is not None:
        h, (i, op, il, ml) = first_bad
        rep.broken.append(("correspondence:lock-trace(model lock protocol vs ruler+locker calls)",
                           json.dumps({"config": h["cfg"], "ops": h["ops"][:i + 1], "impl": il[:300], "model": ml[:300]}), found))


def c03(rep, tier, seed, wd, replay):
    import crash
    import conc
    import imp
    from concurrent.futures import ThreadPoolExecutor
    from common import run_model
    rep.cov["rule"] = ("(a) call-order traces: every signing call is preceded, inside the same request, by a successful store exit "
                       "(trace P L Q F S X U G equal to the model's); (b) for seeded histories (single/batch attestations, proposals) a "
                       "child process is SIGKILLed at EVERY hook point (each store read/write entry and exit, signing entry, before and after "
                       "each reply); the same directory is reopened; the restarted instance's export must cover every signature returned "
                       "before the kill (Lean judge), must equal the model's store either before or after the interrupted request, and "
                       "conflicting probes must be refused; (c) the open store's SyncWrites option is read back, and one run under strace "
                       "checks the value log is opened O_DSYNC (or fsynced) before the store call returns; non-trivial = kill point after at "
                       "least one released signature; "
                       "(d) permanence: two histories are run with and without server.rules.periodic-pruning, the instance stopped and the closed store opened read-only with badger itself: no record may carry an expiry time")
    rep.assumptions += ["SIGKILL cannot lose page-cache data: durability against power loss is assumed from SyncWrites (probed by option read-back and syscall trace only)",
                        "badger replays what it synced; torn writes inside badger are not modelled"]
    prove(rep, "C03")
    first_bad, dh, keys, rng = lock_trace_histories(rep, tier, seed, wd, "C03")
    # the order judge: in every trace, a G (sign) has an X (store exit) before it
    accts, cfg = crash.crash_config(keys)
    nh = tier_sizes(tier, 6, 40)
    found = False
    total_points = 0
    cases = []
    base = os.path.join(wd, "crash")
    os.makedirs(base, exist_ok=True)
    hists = [crash.gen_history(rng.fork(), accts) for _ in range(nh)]
    # a crafted history first: batches whose keys arrive in DESCENDING (and in shuffled) order with a different target per
    # key, a batch in which one entry is a stale resend (refused) while its neighbours advance, then singles — whatever the
    # store does with a batch (ordering, de-duplication, chunking), each key's record must be that key's own
    desc = sorted(accts, key=lambda a_: a_.pk, reverse=True)
    mid = [desc[1], desc[2], desc[0]]
    hists.insert(0, [conc.atts_op([conc.att_item(conc.name(a_), 1, 2 + 2 * q_, 0) for q_, a_ in enumerate(desc)]),
                     conc.atts_op([conc.att_item(conc.key(a_), 1, [9, 2, 11][q_], 1) for q_, a_ in enumerate(mid)]),
                     conc.att_op(conc.name(desc[2]), 1, 12, 0),
                     conc.atts_op([conc.att_item(conc.name(desc[0]), 1, 13, 2), conc.att_item(conc.key(desc[1]), 1, 10, 2)]),
                     conc.prop_op(conc.name(desc[0]), 3, 0)])
    if REPLAY is not None and "kill_at_point" in REPLAY:
        hists, cfg = [REPLAY["ops"]], REPLAY["config"]
        accts = hist.accts_from_config(cfg)
    for hi, ops in enumerate(hists):
        d = os.path.join(base, "h%d-count" % hi, "dir")
        os.makedirs(os.path.dirname(d), exist_ok=True)
        out, rc, err = crash.run_child(dh, d, cfg + ops + ["syncwrites"])
        pts = [l for l in out if l.startswith("POINTS")]
        if rc != 0 or not pts:
            raise Broken("crash-engine", "count run failed: " + err[-500:])
        if "true" not in out[-2:]:
            rep.broken.append(("fact:SyncWrites(open store option read back)", "the open badger store reports SyncWrites=%s" % out[-2:], False))
        n = int(pts[0].split()[1])
        total_points += n
        for j in range(n):
            cases.append((hi, j))
        if hi < 2 and not (REPLAY is not None and "kill_at_point" in REPLAY):
            # permanence of what was recorded: the same history with and without the store's periodic maintenance enabled, the
            # instance stopped, and the CLOSED store opened read-only with badger itself — a record of a released signature that
            # carries an expiry time is gone after a long enough downtime, and the conflicting request is then signed
            for pi_, pre_ in enumerate(([], ["pruning"])):
                d2 = os.path.join(base, "h%d-perm%d" % (hi, pi_), "dir")
                os.makedirs(os.path.dirname(d2), exist_ok=True)
                out2, rc2, err2 = crash.run_child(dh, d2, pre_ + cfg + ops, points=False)
                stor = [os.path.join(r_, "storage") for r_, ds_, _ in os.walk(os.path.dirname(d2)) if "storage" in ds_]
                if rc2 != 0 or not stor:
                    raise Broken("crash-engine", "permanence run failed: " + err2[-500:])
                pe = __import__("subprocess").run([dh, "expiry", stor[0]], text=True, stdout=__import__("subprocess").PIPE, stderr=__import__("subprocess").PIPE, env=__import__("common").GOENV, timeout=120).stdout.splitlines()
                if not pe or not pe[-1].startswith("records ") or pe[-1] == "records 0":
                    raise Broken("crash-engine", "permanence probe could not read the store: " + "\n".join(pe)[-400:])
                rep.count("permanence|" + ("pruning" if pre_ else "default"), True)
                exp_ = [l_ for l_ in pe[:-1] if len(l_.split()) == 2]
                if exp_:
                    rep.violation("protection-record-expires", "a slashing-protection record written for a released signature carries an expiry time (%d of %s): after a crash "
                                  "and a downtime beyond it the store answers 'never signed' and the conflicting request is approved (the wait itself is not executed)" % (len(exp_), pe[-1]),
                                  {"config": pre_ + cfg, "ops": ops, "expiring_records": exp_[:8], "then": "kill, restart after the expiry time, repeat any released duty with another root"})

    if REPLAY is not None and "kill_at_point" in REPLAY:
        # the recorded point first, then every other point of that history (what a kill leaves behind can depend on timing)
        cases = [(0, REPLAY["kill_at_point"])] + [c_ for c_ in cases if c_[1] != REPLAY["kill_at_point"]]

    def one(case):
        hi, j = case[0], case[1]
        ops = hists[hi]
        d = os.path.join(base, "h%d-k%d%s" % (hi, j, "-r%d" % case[2] if len(case) > 2 else ""), "dir")
        os.makedirs(os.path.dirname(d), exist_ok=True)
        out, rc, err = crash.run_child(dh, d, cfg + ops, kill_at=j)
        lines = out[1:]          # drop "ok" of begin
        k = len(lines)           # ops replied before death
        rel = hist.released(ops[:k], lines, accts)
        probes = crash.probes_for(rel, accts)
        cont = ["export"] + probes + ops[k + 1:] + ["export"]
        out2, rc2, err2 = crash.run_child(dh, d, cfg + cont, points=False)
        shutil.rmtree(os.path.dirname(d), ignore_errors=True)
        return (hi, j, k, lines, rel, probes, cont, out2[1:], rc, rc2, err2)
    with ThreadPoolExecutor(max_workers=12) as ex:
        results = list(ex.map(one, cases))
    if REPLAY is not None and "kill_at_point" in REPLAY:
        # what a SIGKILL leaves behind can depend on timing (e.g. a write still in flight): repeat the recorded point
        # (under the same kind of load as the full run: many kill cycles at once)
        with ThreadPoolExecutor(max_workers=12) as ex:
            results = list(ex.map(one, [(0, REPLAY["kill_at_point"], q_) for q_ in range(36)])) + results
    # model: candidate states
    ml = []
    for (hi, j, k, lines, rel, probes, cont, out2, rc, rc2, err2) in results:
        ops = hists[hi]
        for kk in (k, k + 1):
            ml += ["reset"] + cfg + ops[:kk] + cont
    mout = run_model(ml)
    pos = 0
    jl, jmeta = [], []
    for (hi, j, k, lines, rel, probes, cont, out2, rc, rc2, err2) in results:
        ops = hists[hi]
        cand = []
        for kk in (k, k + 1):
            n = 1 + len(ops[:kk]) + len(cont)
            seg = mout[pos:pos + n]
            pos += n
            cand.append(seg[1 + len(ops[:kk]):])
            if kk == k:
                pre_model = seg[1:1 + min(k, len(ops))]
        # what was answered before the kill is what the model answers (a store fault must not end in a signature)
        for oi, (x, y) in enumerate(zip(lines, pre_model)):
            if hist.states_of(x) != hist.states_of(y) and not found:
                if "S" in hist.states_of(x) and any(t_ in ("s",) or (t_[:1] == "f" and t_[1:].isdigit()) for t_ in ops[oi].split(" ")):
                    rep.violation("released-despite-store-fault", "a request whose slashing-protection read or write failed was answered with a signature",
                                  {"config": cfg, "ops": ops[:oi + 1], "kill_at_point": j, "impl": x[:200], "model": y[:200]})
                    found = True
                else:
                    rep.broken.append(("correspondence:crash(replies before the kill differ from the model)",
                                       json.dumps({"config": cfg, "ops": ops[:oi + 1], "impl": x[:200], "model": y[:200]}), False))
                break
        if found:
            break
        rep.dist("killed_during_op", ops[k].split()[0] if k < len(ops) else "after-last")
        rep.count("%d|%d" % (hi, j), len(rel) > 0)
        if rc2 != 0 or len(out2) < len(cont):
            rep.violation("restart-failed", "the instance could not be restarted / died after a kill at hook point %d" % j,
                          {"config": cfg, "ops": ops, "kill_at_point": j, "stderr": err2[-400:]})
            found = True
            break

        def same(a, b):
            return len(a) == len(b) and all((hist.states_of(x) == hist.states_of(y)) if not x.startswith("E") else x.strip() == y.strip()
                                            for x, y in zip(a, b))
        if not (same(out2, cand[0]) or same(out2, cand[1])):
            rep.broken.append(("correspondence:crash(store after kill+restart is neither the model's state before nor after the interrupted request)",
                               json.dumps({"config": cfg, "ops": ops, "kill_at_point": j, "replied": k, "after_restart": out2[:3],
                                           "model_before": cand[0][:3], "model_after": cand[1][:3]}), False))
        ex = imp.parse_export(out2[0]) or {}
        for (kd, key, data, sig, i, jj, st) in rel:
            f = data.split(",")
            e = ex.get(key.hex(), ("-1", "-1", "-1"))
            if kd == "att":
                jl.append("jcoveratt %s %s %s %s" % (f[4], f[6], e[1], e[2]))
            else:
                jl.append("jcoverprop %s %s" % (f[1], e[0]))
            jmeta.append((hi, j, k, kd, data))
        # conflicting probes must not be signed
        for pi, pr in enumerate(probes):
            if hist.states_of(out2[1 + pi]) == ["S"]:
                rep.violation("conflict-signed-after-crash", "a request conflicting with a signature returned before the kill was signed after restart",
                              {"config": cfg, "ops": ops, "kill_at_point": j, "replied_before_kill": lines, "probe": pr})
                found = True
                break
        if found:
            break
    if jl and not found:
        jo = run_model(jl)
        rep.cov["released_signatures_checked_after_restart"] = len(jl)
        for meta, o in zip(jmeta, jo):
            if o.strip() != "ok":
                hi, j, k, kd, data = meta
                rep.violation("not-recorded-before-release", "a signature returned before the kill is not covered by the record found after restart",
                              {"config": cfg, "ops": hists[hi], "kill_at_point": j, "replied": k, "signature_for": data[:120]})
                found = True
                break
    # start-up on stores carried over from an earlier release (see startup_stage): what the first requests after a start
    # record must still be there after the next restart
    if REPLAY is None or any(o.startswith("pause") for o in REPLAY.get("ops", [])):
        found = startup_stage(rep, dh, wd, keys, found, first_bad)
    rep.cov["kill_restart_cycles"] = len(results)
    rep.cov["hook_points"] = total_points
    rep.cov["exhaustive"] = True
    # (c) syscall probe
    tr = os.path.join(base, "strace.txt")
    d = os.path.join(base, "st", "dir")
    os.makedirs(os.path.dirname(d), exist_ok=True)
    try:
        out, rc, err = crash.run_child(dh, d, cfg + hists[0][:3], points=True, mark=True, strace=tr)
        txt = open(tr).read() if os.path.exists(tr) else ""
        vlog_open = [l for l in txt.splitlines() if ".vlog" in l and "openat" in l]
        dsync = any("O_DSYNC" in l or "O_SYNC" in l for l in vlog_open)
        fsync = any(("fdatasync" in l or "fsync" in l) and ".vlog" in l for l in txt.splitlines())
        marks = sum(1 for l in txt.splitlines() if "MARK " in l)
        rep.cov["strace"] = {"vlog_open_calls": len(vlog_open), "opened_O_DSYNC": dsync, "fsync_on_vlog": fsync, "store_exit_marks": marks}
        if vlog_open and marks and not (dsync or fsync):
            rep.broken.append(("fact:durability-barrier(value log neither opened O_DSYNC nor fsynced before Store returns)",
                               "\n".join(vlog_open[:3]), False))
    except Exception as ex_:
        rep.cov["strace"] = {"unavailable": str(ex_)[:200]}
    if first_bad is not None:
        h, (i, op, il, ml_) = first_bad
        rep.broken.append(("correspondence:call-order(model trace vs locker/store/sign calls)",
                           json.dumps({"config": h["cfg"], "ops": h["ops"][:i + 1], "impl": il[:300], "model": ml_[:300]}), found))


DKG_DIFF_OPS = ("cluster", "gen", "gens", "gensp", "holds", "cprepare", "hprepare", "hprepares", "hexecute", "hexecute2", "hcontribute", "hcontributev", "hcommit", "habort", "sleep", "ctxdl", "peerscfg")


def c18(rep, tier, seed, wd, replay):
    import listing
    from common import run_impl, run_model
    rep.cov["rule"] = ("populations of 1-3 wallets x 0-8 accounts (incl. empty wallets), per-account permission tables for two clients "
                       "(literal/regex/alternation paths, All/None/~Access/Access/other operations), lists of requested paths (wallet only, "
                       "wallet/regex, trailing slash, unknown wallets, case variants, malformed, duplicates), listings before and after "
                       "accounts are created through dirk (single-participant generation, no restart); result multisets are compared with "
                       "the Lean lister model; each listing is judged by the Lean specification: nothing listed without the access "
                       "permission or outside the requested wallets, and every accessible account whose whole name matches a requested "
                       "path is listed; each entry's public key is cross-checked with the fetcher; non-trivial = listing that returned >=1 account")
    rep.assumptions += ["over-listing inside accessible accounts of a requested wallet (the lister's own un-grouped anchoring of alternations) is not a violation of C18 as stated and is not flagged"]
    prove(rep, "C18")
    dh = build_harness(wd)
    keys = hist.interop_keys(dh)
    rng = Rng(seed * 31 + 18)
    n = tier_sizes(tier, 140, 1500)
    scen = [listing.gen_scenario(rng.fork(), keys) for _ in range(n)]
    lines = []
    for cfg, ops, accts in scen:
        lines += ["reset"] + cfg + ops
    from concurrent.futures import ThreadPoolExecutor
    jobs = 8
    chunks = [scen[i::jobs] for i in range(jobs)]

    def run_chunk(ch):
        ls = []
        for cfg, ops, accts in ch:
            ls += ["reset"] + cfg + ops
        impl, crashed, err = run_impl(dh, wd, ls)
        model = run_model(ls)
        out = []
        pos = 0
        for cfg, ops, accts in ch:
            k = 1 + len(ops)
            out.append((cfg, ops, impl[pos + 1:pos + k], model[pos + 1:pos + k]))
            pos += k
        return out, crashed, err
    results = []
    with ThreadPoolExecutor(max_workers=jobs) as ex:
        for out, crashed, err in ex.map(run_chunk, [c for c in chunks if c]):
            results += out
            if crashed:
                rep.broken.append(("implementation-crash:list", err, False))
    first_bad = None
    jl, jm = [], []
    found = False
    for si, (cfg, ops, impl, model) in enumerate(results):
        jl += ["reset"] + [l for l in cfg if l.split()[0] in ("acct", "perm", "permclient", "wallet")] + ["begin"]
        jm.append(None)
        for i, op in enumerate(ops):
            f = op.split()
            io = impl[i] if i < len(impl) else "<missing>"
            mo = model[i] if i < len(model) else "<missing>"
            rep.dist("op", f[0])
            if io.strip() != mo.strip() and first_bad is None:
                first_bad = (cfg, ops[:i + 1], io, mo)
            if f[0] == "list" and io.startswith("S"):
                names = io.split()[1] if len(io.split()) > 1 else "-"
                rep.count("%d|%s" % (si, op), names != "-")
                if "21" in [x[-2:] for x in names.split(",")] and any(bytes.fromhex(x).decode(errors="replace").endswith("!") for x in names.split(",") if x != "-"):
                    rep.violation("entry-wrong-key", "a listed entry does not carry its own public key", {"config": cfg, "ops": ops[:i + 1], "impl": io})
                    found = True
                jl.append("jlist %s %s %s" % (f[1], f[2], names))
                jm.append((si, i))
            elif f[0] == "create":
                rep.dist("create", io)
                if io.startswith("ok"):
                    jl.append("jcreate %s" % (io.split()[1] if len(io.split()) > 1 and io.split()[1] != "?" else f[2]))
                    jm.append(None)
    # hypothesis of C18_complete_whole_name evaluated for every requested account pattern
    lpats = set()
    for cfg, ops, impl, model in results:
        for op in ops:
            f = op.split()
            if f[0] == "list" and f[2] != "-":
                for ph in f[2].split(","):
                    pth = "" if ph == "." else bytes.fromhex(ph).decode("utf-8", "replace")
                    if "/" in pth and pth.split("/", 1)[1]:
                        lpats.add(pth.split("/", 1)[1])
    lp = sorted(lpats)
    sh_ = [o.strip() for o in run_model(["jlshape %s" % hx(x) for x in lp])] if lp else []
    rep.cov["list_patterns_shape_hypothesis_evaluated"] = len(lp)
    rep.cov["list_patterns_shape_hypothesis_fails"] = sorted(x for x, o in zip(lp, sh_) if o != "ok")[:20]
    out = run_model(jl)
    rep.cov["listings_judged"] = sum(1 for m in jm if m is not None)
    for m, o in zip(jm, out):
        if m is not None and not o.startswith("ok"):
            si, i = m
            cfg, ops, impl, model = results[si]
            what = o.split()[0]
            name = bytes.fromhex(o.split()[1]).decode(errors="replace") if len(o.split()) > 1 and o.split()[1] != "." else ""
            rep.violation("listing-" + what, "a listing is judged %s by the Lean specification (account %r)" % (what, name),
                          {"config": cfg, "ops": ops[:i + 1], "impl": impl[i],
                           "decoded": {"perms": [[bytes.fromhex(x).decode() if x not in ("-", ".") else "" for x in l.split()[1:3]] + [l.split()[3]] for l in cfg if l.startswith("perm ")]}})
            found = True
            break
    # accounts created by key generation while something goes wrong around the commit (the wallet store of one participant
    # fails a read right after the account was written): whatever the generation then reports, an account that IS in a
    # participant's wallet is listed by that participant to a client entitled to it
    if REPLAY is None or "lines" in REPLAY:
        from common import run_impl as _ri
        import dkg as _dkg
        ids_ = [1, 2, 3]
        stage = []
        for to_ in ids_:
            acct_ = "DW/sr%d" % to_
            stage.append(("store-read-fault-at-%d" % to_, [_dkg.cluster_line(ids_), _dkg.gen_line(1, acct_, 2, 3, "storeread:commit:0:%d" % to_), "holds %s" % hx(acct_)] +
                          ["ilist %d %s %s" % (i_, hx("client1"), hx("DW")) for i_ in ids_] + [_dkg.gen_line(3, acct_ + "b", 2, 3), "holds %s" % hx(acct_ + "b")] +
                          ["ilist %d %s %s" % (i_, hx("client1"), hx("DW")) for i_ in ids_]))
        if REPLAY is not None:
            stage = [("replay", REPLAY["lines"])]
        for tag_, lines_ in stage:
            io_, cr_, er_ = _ri(dh, wd, lines_, engine="dkg", timeout=600)
            rep.count("dkg-list|" + tag_, True)
            if cr_ or len(io_) < len(lines_):
                rep.broken.append(("implementation-crash:dkg-list", er_[-1500:], False))
                continue
            held = {}      # instance -> set of accounts in its wallet
            for l_, o_ in zip(lines_, io_):
                f_ = l_.split()
                if f_[0] == "holds":
                    nm_ = bytes.fromhex(f_[1]).decode()
                    for tok in o_.split():
                        i_, st_, fe_ = tok.split(":")
                        if st_ == "true":
                            held.setdefault(i_, set()).add(nm_)
                elif f_[0] == "ilist":
                    listed = set(o_.split(" ", 1)[1].split(",")) if " " in o_ and o_.split(" ", 1)[1] else set()
                    miss = held.get(f_[1], set()) - listed
                    if miss and not found:
                        rep.violation("listing-MISSING", "an account that is in the participant's wallet (created by key generation) is not listed to a client entitled to it: %s" % sorted(miss),
                                      {"scenario": tag_, "lines": lines_[:lines_.index(l_) + 1], "impl": io_[:lines_.index(l_) + 1]})
                        found = True
    if results:
        cfg, ops, impl, model = results[0]
        rep.sample({"ops": [o[:160] for o in ops[:3]], "impl": [x[:160] for x in impl[:3]]})
    rep.cov["traces_validated_against_impl"] = len(results)
    if first_bad is not None:
        cfg, ops, io, mo = first_bad
        rep.broken.append(("correspondence:list(model lister vs lister/standard)", json.dumps({"config": cfg, "ops": ops, "impl": io[:400], "model": mo[:400]}), found))


def grpc_histories(rng, keys, n_hist, n_ops, faults=True):
    hs = engines.gen_histories(rng, keys, n_hist, n_ops, {"faults": faults, "huge": True,
                                                          "admins": [["127.0.0.1"], ["127.0.0.2"], ["127.0.0.3", "127.0.0.2"], ["10.0.0.1"], []]})
    r = rng.fork()
    for h in hs:
        h["cfg"] = ["viagrpc"] + h["cfg"]
        if r.chance(0.5):
            h["cfg"] = ["tracelog"] + h["cfg"]      # every service logs at trace level (discarded)
        h["ops"] = [o for o in h["ops"] if o != "restart"]
        # the request's source address is the REMOTE end of the connection: generic signing requests are sent from
        # different loopback source addresses (the server end is always 127.0.0.1)
        for i, o in enumerate(h["ops"]):
            f = o.split(" ")
            if f[0] in ("sign", "msign"):
                f[2] = r.weighted([("-", 2), (hx("127.0.0.1"), 2), (hx("127.0.0.2"), 3), (hx("127.0.0.3"), 1)])
                h["ops"][i] = " ".join(f)
    return hs


def c20(rep, tier, seed, wd, replay):
    import wire
    from common import run_impl, sh, REPO
    rep.cov["rule"] = ("(a) the regenerated inventory of panic-capable constructs in the packages client requests reach must be inside the "
                       "reviewed list (Lean obligation); (b) seeded request histories sent through the REAL gRPC API (TLS, interceptors, "
                       "handlers) must agree with the Lean handler model position by position; (c) raw protobuf wire bytes (absent / "
                       "explicitly empty / duplicated fields, byte lengths 0,1,3,4,31,32,33,47,48,49,96,4096, extreme integers, batches of "
                       "0..17 (thorough 1000), unknown fields, wrong wire types, truncation, garbage; all client-facing services and DKG "
                       "messages from non-peers) over real gRPC to a real daemon in a child process under a 16 GiB address-space limit; "
                       "after EVERY message a second client must still be served; non-trivial = message the daemon answered with a response")
    rep.assumptions += ["allocator size classes (protobuf-go gives short byte fields capacity >= 8), memory exhaustion beyond the address-space limit, C-library robustness on malformed points",
                        "the inventory is syntactic (explicit panic, unchecked type assertion, constant-bound slicing, make sized by a non-constant); plain indexing is covered by the shape theorems of C06/C08, not by the inventory"]
    prove(rep, "C20")
    dh = build_harness(wd)
    keys = hist.interop_keys(dh)
    rng = Rng(seed * 37 + 20)
    found = False
    # (b)
    hs = grpc_histories(rng, keys, *tier_sizes(tier, (16, 40), (150, 80)))
    if REPLAY is not None:
        rh = replay_history()
        hs = [rh] if rh else []
    crashed, err = engines.exec_histories(dh, wd, hs)
    if crashed:
        dead = [h for h in hs if len(h.get("impl", [])) < len(h["ops"])]
        rep.violation("crash-via-grpc", "the instance died while serving a request through the gRPC API",
                      dict({"stderr": err[-1500:]}, **({"config": dead[0]["cfg"], "ops": dead[0]["ops"][:len(dead[0]["impl"]) + 1]} if dead else {})))
        found = True
    first_bad = None
    for h in hs:
        rep.count("grpc|" + json.dumps(h["ops"][:2]), True)
        if h["bad"] and first_bad is None:
            first_bad = (h, h["bad"][0])
    rep.cov["grpc_histories"] = len(hs)
    # (c)
    msgs = wire.corpus() + wire.gen_messages(rng, tier_sizes(tier, 500, 8000), big=(tier == "thorough"))
    if REPLAY is not None:
        msgs = [(REPLAY["method"], REPLAY["client"], bytes.fromhex(REPLAY["payload_hex"]), "replay")] if "payload_hex" in REPLAY else []
        if "prelude" in REPLAY:
            msgs = [(m_, c_, bytes.fromhex(p_), "replay-prelude") for m_, c_, p_ in REPLAY["prelude"]] + msgs
    i = 0
    restarts = 0
    total = 0
    answered = 0
    while i < len(msgs) and restarts < 6:
        try:
            d = wire.Daemon(dh, wd)
        except Exception as ex_:
            raise Broken("wire-daemon", str(ex_)[-1500:])
        chunk = msgs[i:]
        lines = ["%s %s %s" % (m, c, p.hex() if p else ".") for (m, c, p, tag) in chunk]
        p_ = __import__("subprocess").run([dh, "wire", d.port, REPO], input="\n".join(lines) + "\n", text=True, stdout=__import__("subprocess").PIPE,
                                         stderr=__import__("subprocess").PIPE, env=__import__("common").GOENV, timeout=3600)
        out = p_.stdout.splitlines()
        dead_at = None
        for j, o in enumerate(out):
            total += 1
            m, c, pl, tag = chunk[j]
            rep.dist("method", m.split("/")[-1])
            rep.dist("outcome", o.split()[0].split(":")[0] + ("" if o.startswith("resp") else ":" + o.split()[0].split(":")[1]))
            rep.count("%s|%s" % (m, pl.hex()[:200]), o.startswith("resp"))
            answered += o.startswith("resp")
            if o.endswith("DEAD"):
                dead_at = j
                break
        stderr_tail = d.stop()
        if dead_at is None and len(out) < len(chunk) and not d.alive():
            dead_at = len(out)
        if dead_at is not None:
            m, c, pl, tag = chunk[dead_at]
            reason = [l for l in stderr_tail.splitlines() if "fatal error" in l or l.startswith("panic")]
            # state-changing messages this daemon had accepted before (account creation): needed to replay a crash that
            # depends on them
            prelude = [[m2, c2, p2.hex()] for (m2, c2, p2, t2), o2 in zip(chunk[:dead_at], out[:dead_at])
                       if (m2.endswith("/Generate") and o2.startswith("resp")) or (t2 == tag and tag == "repeated-bad-unlock")][-12:]
            rep.violation("daemon-crash-" + tag, "the daemon stopped answering after this message (%s)" % (reason[0] if reason else "no longer alive"),
                          {"method": m, "client": c, "payload_hex": pl.hex(), "prelude": prelude, "stderr": stderr_tail[-1200:]})
            found = True
            i += dead_at + 1
            restarts += 1
        else:
            i = len(msgs)
    # (c2) the interceptors every request of every service passes through (built once per server), called from 32
    # goroutines at full speed in-process: a panic there is a panic of the daemon (nothing recovers it)
    if REPLAY is None or "hammer" in REPLAY:
        from common import sh as _sh
        rc_, ho, he = _sh([dh, "hammer", "400" if tier != "thorough" else "3000"], timeout=600)
        rep.cov["interceptor_hammer"] = ho.split("\n")[:6]
        for l_ in ho.splitlines():
            rep.count("hammer|" + l_.split()[1] if len(l_.split()) > 1 else l_, True)
            if l_.startswith("PANIC"):
                rep.violation("interceptor-panic-under-concurrency", "an interceptor panics when requests are in flight concurrently (in the daemon this kills the process): " + l_,
                              {"hammer": l_, "how": "dh hammer <ms>: 32 goroutines calling the interceptor the server builds once"})
                found = True
        if rc_ != 0 and not ho.strip():
            rep.broken.append(("hammer-engine", he[-1500:], False))
    # (d) many valid requests in flight at once.  A daemon built with Go's race detector serves a short burst: a data race
    # on the request path (shared state touched by concurrent requests without synchronisation) is how "valid requests
    # crash the daemon" starts, and the detector sees it long before the crash happens; thorough: a long burst against
    # the ordinary daemon, which must survive it.
    if REPLAY is None:
        from common import build_harness_race
        from wire import msg as _msg, fld as _fld, LEN as _LEN
        bl = ["burst:%d:8:8:/v1.Lister/ListAccounts client-test01 %s" % (1500 if tier != "thorough" else 6000, _msg(_fld(1, _LEN, b"Wallet 1")).hex()),
              "burst:%d:8:8:/v1.Signer/Sign client-test02 %s" % (1000 if tier != "thorough" else 4000,
                                                               _msg(_fld(2, _LEN, b"Wallet 2/Account 0"), _fld(3, _LEN, bytes(32)), _fld(4, _LEN, bytes([2]) + bytes(31))).hex()),
              "burst:%d:8:8:/v1.DKG/Abort client-test03 %s" % (800 if tier != "thorough" else 3000, _msg(_fld(1, _LEN, b"Wallet 3/none")).hex())]
        try:
            dr = wire.Daemon(build_harness_race(wd), wd)
            p_ = __import__("subprocess").run([dh, "wire", dr.port, REPO], input="\n".join(bl) + "\n", text=True, stdout=__import__("subprocess").PIPE,
                                             stderr=__import__("subprocess").PIPE, env=__import__("common").GOENV, timeout=900)
            rerr = dr.stop()
            rep.cov["race_detector_burst"] = [o_.split()[0] for o_ in p_.stdout.splitlines()]
            races = rerr.count("WARNING: DATA RACE")
            rep.cov["race_detector_reports"] = races
            rep.count("race-burst", True)
            if races:
                i_ = rerr.index("WARNING: DATA RACE")
                rep.broken.append(("tie:race-freedom(the daemon's request path under concurrent valid requests, Go race detector)",
                                   "%d data race report(s); first:\n%s" % (races, rerr[i_:i_ + 2500]), found))
            elif any("DEAD" in o_ for o_ in p_.stdout.splitlines()):
                rep.violation("daemon-crash-burst", "the daemon stopped answering under a burst of concurrent valid requests", {"burst": bl, "stderr": rerr[-1500:]})
                found = True
        except RuntimeError as ex_:
            rep.broken.append(("race-daemon-start", str(ex_)[-1500:], False))
        if tier == "thorough":
            dl = wire.Daemon(dh, wd)
            lb = "burst:60000:32:8:/v1.Lister/ListAccounts client-test01 %s" % _msg(_fld(1, _LEN, b"Wallet 1")).hex()
            p_ = __import__("subprocess").run([dh, "wire", dl.port, REPO], input=lb + "\n", text=True, stdout=__import__("subprocess").PIPE,
                                             stderr=__import__("subprocess").PIPE, env=__import__("common").GOENV, timeout=900)
            lerr = dl.stop()
            rep.cov["long_burst"] = p_.stdout.strip()[:120]
            if "DEAD" in p_.stdout or not p_.stdout.strip():
                reason = [l for l in lerr.splitlines() if "fatal error" in l or l.startswith("panic")]
                rep.violation("daemon-crash-burst", "the daemon died under a one-minute burst of concurrent valid requests (%s)" % (reason[0] if reason else "no longer alive"),
                              {"burst": [lb], "stderr": lerr[-1500:]})
                found = True
    rep.cov["wire_messages"] = total
    rep.cov["wire_messages_answered_with_a_response"] = answered
    rep.cov["traces_validated_against_impl"] = total + len(hs)
    if len(msgs) > 10:
        rep.sample({"message": {"method": msgs[10][0], "client": msgs[10][1], "payload_hex": msgs[10][2].hex()[:120]}})
    if first_bad is not None:
        h, (i_, op, il, ml) = first_bad
        rep.broken.append(("correspondence:handlers(model handler layer vs real gRPC API)",
                           json.dumps({"config": h["cfg"], "ops": h["ops"][:i_ + 1], "impl": il[:300], "model": ml[:300]}), found))


DAEMON_PERMS = {"client-test01": ["Wallet 1", "Wallet 3"], "client-test02": ["Wallet 2", "Wallet 3"], "client-test03": ["Wallet 1", "Wallet 2"]}
DAEMON_PEERS = ["signer-test01", "signer-test02", "signer-test03"]


def c19(rep, tier, seed, wd, replay):
    from common import sh, run_model, REPO
    rep.cov["rule"] = ("a real daemon (testing/daemon.New) on 127.0.0.1; credentials minted at run time: plaintext, TLS without client "
                       "certificate, self-signed certificate bearing a permitted name, certificate from another authority bearing a permitted "
                       "name, expired and not-yet-valid certificates from the right authority, valid certificates of each permitted client, of "
                       "an unpermitted client and of a peer; EVERY method of EVERY service in the pb descriptors is invoked under each, for two "
                       "wallets; the Lean transport model (instantiated with the regenerated client-auth mode) predicts refused-at-transport vs "
                       "served-with-identity; the identity is observed through permission outcomes (client-test01 may use Wallet 1 but not "
                       "Wallet 2, client-test02 the opposite, ...) and the DKG 'unknown sender' reply; the matrix is enumerated completely")
    rep.assumptions += ["crypto/tls and crypto/x509 implement the documented client-authentication modes; gRPC dispatches only on an established connection"]
    prove(rep, "C19")
    dh = build_harness(wd)
    d = os.path.join(wd, "tls")
    os.makedirs(d, exist_ok=True)
    rc, out, err = sh([dh, "tls", d, REPO], timeout=600)
    if rc != 0:
        raise Broken("tls-engine", err[-2000:])
    lines = [l for l in out.splitlines() if l.strip()]
    unc = [l for l in lines if l.startswith("UNCOVERED-METHOD")]
    if unc:
        rep.broken.append(("tie:rpc-inventory(a registered RPC method is not exercised by the tls engine)", "\n".join(unc), False))
    # the regenerated mode
    import re as _re
    facts = open(os.path.join(VERIF, "lean", "Dirk", "Gen", "Facts.lean")).read()
    m = _re.search(r'def tlsClientAuth : Option String := some "([^"]+)"', facts)
    mode = m.group(1) if m else "unknown"
    rows = [l.split() for l in lines if not l.startswith("UNCOVERED")]
    kinds = sorted({r_[0] for r_ in rows})
    pred = dict(zip(kinds, run_model(["tlsmodel %s %s" % (mode, k) for k in kinds])))
    # what the property demands of each kind, independent of the mode found in the source
    must = dict(zip(kinds, run_model(["tlsmodel tls.RequireAndVerifyClientCert %s" % k for k in kinds])))
    found = False
    first_bad = None
    if REPLAY is not None:
        rows = [r_ for r_ in rows if (r_[0], r_[1], r_[2]) == (REPLAY.get("credential"), REPLAY.get("method"), REPLAY.get("wallet"))]
        rep.cov["replay"] = "tls engine row %s" % (rows[0] if rows else "not present")
    for kind, meth, wallet, res in rows:
        rep.count("%s|%s|%s" % (kind, meth, wallet), True)
        rep.dist("credential", kind.split(":")[0])
        rep.dist("outcome", res.split(":")[0])
        served = res.startswith("served")
        want = must[kind]
        if served and want == "refused":
            rep.violation("served-without-valid-certificate-" + kind.split(":")[0],
                          "an RPC was served to a caller without a valid certificate from the configured authority",
                          {"credential": kind, "method": meth, "wallet": wallet, "result": res})
            found = True
        if (pred[kind] == "refused") != (not served) and first_bad is None:
            first_bad = (kind, meth, wallet, res, pred[kind])
        if served and want.startswith("served"):
            cn = want.split()[1]
            w = wallet.replace("_", " ")
            allowed = w in DAEMON_PERMS.get(cn, [])
            svc = meth.split("/")[1]
            ok = True
            if svc == "v1.DKG":
                unknown = "unknown_sender" in res
                ok = unknown == (cn not in DAEMON_PEERS)
            elif meth.endswith("ListAccounts"):
                # (a permitted client sees the 16 configured accounts plus whatever Generate calls have created by then)
                m_ = re.match(r"served:SUCCEEDED:(\d+)$", res)
                ok = bool(m_) and ((int(m_.group(1)) >= 16) if allowed else (int(m_.group(1)) == 0))
            elif "WalletManager" in meth or "AccountManager" in meth or "Signer" in meth:
                ok = ("SUCCEEDED" in res) == allowed or (allowed and "FAILED" in res and "Generate" in meth)
            if not ok:
                rep.violation("wrong-identity", "the outcome of a served RPC is not the one the certificate's subject name is entitled to",
                              {"credential": kind, "method": meth, "wallet": wallet, "result": res, "subject": cn, "allowed": allowed})
                found = True
    # identities of any length: permitted clients whose names are 63, 64, 65 and 200 bytes long, and callers whose certificate
    # subject EXTENDS a permitted name (or is a prefix of it) — through the real gRPC API with certificates minted for exactly
    # those subjects; only the exact subject is entitled to anything
    ka_ = hist.interop_keys(dh)
    la_, _, _ = hist.std_config(ka_, nacct=3, locked=False)
    n0_ = "n:" + hx(la_[0].path)
    r32_ = (bytes([0xA1]) * 32).hex()
    domr_ = (DOM_RANDAO + bytes(28)).hex()
    LH = []
    for ln_ in (63, 64, 65, 200):
        nm_ = ("client-" + "x" * 300)[:ln_]
        perms_ = [(nm_, "Wallet 1", ["All"])]
        ops_ = []
        for who in (nm_, nm_ + ".attacker.example", nm_ + "x", nm_[:-1], nm_[:32], nm_.upper()):
            ops_.append("sign %s - %s %s,%s -" % (hx(who), n0_, domr_, r32_))
            ops_.append("list %s %s" % (hx(who), hx("Wallet 1")))
        LH.append({"cfg": ["nocache", "viagrpc"] + hist.config_lines(la_, perms_, []), "ops": ops_, "accts": la_, "opts": {}, "permitted": nm_})
    if REPLAY is not None:
        rh_ = replay_history()
        LH = [rh_] if rh_ else []
    if LH:
        crashed_, err_ = engines.exec_histories(dh, wd, LH)
        if crashed_:
            rep.broken.append(("implementation-crash:long-names", err_[-1500:], False))
        for h in LH:
            rep.count("longnames|%d" % len(h.get("permitted", "")), True)
            for (i, op, il, ml) in h["bad"]:
                who = bytes.fromhex(op.split()[1]).decode(errors="replace")
                served_ = il.startswith("S:") or (op.startswith("list") and il.startswith("S ") and il.split()[1] != "-")
                if served_ and who != h.get("permitted") and not found:
                    rep.violation("wrong-identity", "a caller whose certificate subject (%d bytes) is not a permitted client's name was served as if it were" % len(who),
                                  {"config": h["cfg"], "ops": h["ops"][:i + 1], "impl": il[:120], "model": ml[:120]})
                    found = True
            if h["bad"] and not found and first_bad is None:
                i, op, il, ml = h["bad"][0]
                rep.broken.append(("correspondence:long-names(model vs gRPC API)", json.dumps({"config": h["cfg"], "ops": h["ops"][:i + 1], "impl": il[:200], "model": ml[:200]}), False))
    rep.cov["exhaustive"] = True
    rep.cov["methods"] = len({r_[1] for r_ in rows})
    rep.cov["credential_kinds"] = len(kinds)
    rep.cov["traces_validated_against_impl"] = len(rows)
    rep.sample({"rows": [" ".join(r_) for r_ in rows[:3]] + [" ".join(r_) for r_ in rows if r_[0] == "valid:client-test01"][:3]})
    if first_bad is not None:
        rep.broken.append(("correspondence:tls(transport model with the regenerated client-auth mode vs daemon)", json.dumps(first_bad), found))


DKG_DIFF_OPS_C14 = ("iatt", "iattx", "iattb", "iatts", "iatts2", "iattsu", "iprop")


def c14(rep, tier, seed, wd, replay):
    import dkg
    from common import run_model, run_impl
    rep.cov["rule"] = ("a real distributed account (generated through the dkg engine) on n real instances with separate rules stores, "
                       "(n,t) in {(3,2),(4,3),(5,3)} (thorough: every accepted (n,t) up to 7); pairs of conflicting duties (double vote, "
                       "surround both ways, two blocks at one slot) routed to random subsets of instances in random interleavings with "
                       "repeats; per-instance verdicts are compared with the model; the Lean judge counts the partial signatures each duty "
                       "collected (both reaching t is the violation) and checks no instance signed both; for duties that reached t the "
                       "partial signatures are combined by the BLS library and verified under the composite key over the Lean model's "
                       "signing root; non-trivial = pair in which at least one duty reached the threshold")
    rep.assumptions += ["concurrent delivery inside one instance reduces to a serial order by C04; instances share no state"]
    prove(rep, "C14")
    dh = build_harness(wd)
    rng = Rng(seed * 29 + 14)
    scen = dkg.c14_scenarios(rng, tier)
    res = run_dkg(rep, dh, wd, [(s_[0], s_[4]) for s_ in scen], "dkg-cluster", procs=[1, None, 2])
    found = False
    first_bad = None
    jl, jm = [], []
    comb = []
    for (tag, n, t, acct, lines, pairs), r_ in zip(scen, res):
        if r_["crashed"]:
            dkg_report_crash(rep, r_, "C14")
            found = True
            continue
        # model disagreement on the per-instance verdicts
        for i, l in enumerate(lines):
            if l.split()[0] in DKG_DIFF_OPS_C14 and i < len(r_["impl"]) and i < len(r_["model"]):
                if hist.states_of(r_["impl"][i]) != hist.states_of(r_["model"][i]) and first_bad is None:
                    first_bad = (tag, lines[:i + 1], r_["impl"][i], r_["model"][i])
        gen_o = r_["impl"][1].split()
        composite = gen_o[1] if gen_o[0] == "ok" else None
        jl.append("reset")
        for (kind, d1, d2, i1, i2, win) in pairs:
            signed1 = sorted({lines[i].split()[1] for i in i1 if ":" in r_["impl"][i]})
            signed2 = sorted({lines[i].split()[1] for i in i2 if ":" in r_["impl"][i]})
            rep.dist("pair", kind)
            rep.count("%s|%s|%s" % (tag, kind, d1[1][:80]), len(signed1) >= t or len(signed2) >= t)
            jl.append("jquorum %d %d %d" % (t, len(signed1), len(signed2)))
            jm.append((tag, kind, lines[:max(i1 + i2) + 1] if i1 + i2 else lines, r_["impl"], signed1, signed2))
            both = set(signed1) & set(signed2)
            if both:
                rep.violation("instance-signed-both", "one instance released partial signatures for both of two conflicting duties",
                              {"scenario": tag, "kind": kind, "instances": sorted(both), "lines": lines[:max(i1 + i2) + 1], "pair_lines": [lines[i] for i in i1 + i2], "gomaxprocs": r_.get("gomaxprocs")})
                found = True
            # combine partial signatures of a duty that reached the threshold
            for idxs, signed in ((i1, signed1), (i2, signed2)):
                if len(signed) >= t and composite:
                    parts, root = {}, None
                    for i in idxs:
                        if ":" in r_["impl"][i]:
                            parts[lines[i].split()[1]] = r_["impl"][i].split(":")[1]
                            root = r_["model"][i].split(":")[1] if ":" in r_["model"][i] else root
                    if root:
                        chosen = sorted(parts)[:t]
                        comb.append((tag, "combine %s %s %s %s" % (hx(acct), composite, root, ",".join("%s:%s" % (c_, parts[c_]) for c_ in chosen))))
    # what the released partial signatures ACTUALLY sign, whatever request they came back for: every signature an instance
    # released inside a pair's window (any endpoint, any batch position) is verified under that instance's share key over the
    # signing root of each of the pair's two duties (roots from the Lean model); per duty, the instances whose signatures
    # verify are counted — both reaching t, or one instance under both, is the violation
    import re as _re
    from common import sh as _sh
    cand, rootq = [], []
    for (tag, n, t, acct, lines, pairs), r_ in zip(scen, res):
        if r_["crashed"] or len(r_["impl"]) < len(lines) or not lines[-1].startswith("sharepubs"):
            continue
        pubs = dict(tok.split(":") for tok in r_["impl"][-1].split() if ":" in tok)
        for pi, (kind, d1, d2, i1, i2, win) in enumerate(pairs):
            for which, d in ((1, d1), (2, d2)):
                rootq.append(("aroot " if d[0] == "iatt" else "proot ") + d[1])
                for li in range(win[0], min(win[1], len(lines))):
                    f_ = lines[li].split()
                    if f_[0] not in DKG_DIFF_OPS_C14 or f_[1] not in pubs:
                        continue
                    for sg in _re.findall(r"[0-9a-f]{192}", r_["impl"][li]):
                        cand.append((tag, pi, which, f_[1], pubs[f_[1]], len(rootq) - 1, sg, li))
    if cand:
        roots = [x.strip() for x in run_model(rootq)]
        rc_, o_, e_ = _sh([dh, "sigcheck"], input="\n".join("%s %s %s" % (c_[4], roots[c_[5]], c_[6]) for c_ in cand) + "\n")
        ver = {}
        for c_, o in zip(cand, o_.splitlines()):
            if o.strip() == "ok":
                ver.setdefault((c_[0], c_[1]), {1: set(), 2: set()})[c_[2]].add(c_[3])
        rep.cov["partial_signatures_verified_against_both_duties"] = len(cand)
        for (tag, n, t, acct, lines, pairs), r_ in zip(scen, res):
            for pi, (kind, d1, d2, i1, i2, win) in enumerate(pairs):
                v = ver.get((tag, pi))
                if not v or found:
                    continue
                if v[1] & v[2]:
                    rep.violation("instance-signed-both", "one instance released partial signatures that verify over both of two conflicting duties",
                                  {"scenario": tag, "kind": kind, "instances": sorted(v[1] & v[2]), "lines": lines[:win[1]], "pair_lines": lines[win[0]:win[1]], "gomaxprocs": r_.get("gomaxprocs")})
                    found = True
                elif len(v[1]) >= t and len(v[2]) >= t:
                    rep.violation("both-reach-threshold", "two conflicting duties both collected a threshold of partial signatures (counting what each released signature verifies over)",
                                  {"scenario": tag, "kind": kind, "signed_first": sorted(v[1]), "signed_second": sorted(v[2]), "lines": lines[:win[1]], "gomaxprocs": r_.get("gomaxprocs")})
                    found = True
    out = run_model(jl)
    for meta, o in zip(jm, [x for x in out if x.strip() in ("ok", "BOTH-REACH-THRESHOLD")]):
        if o.strip() != "ok":
            tag, kind, lines, impl, s1, s2 = meta
            rep.violation("both-reach-threshold", "two conflicting duties both collected a threshold of partial signatures",
                          {"scenario": tag, "kind": kind, "signed_first": s1, "signed_second": s2, "lines": lines})
            found = True
            break
    if comb:
        o2, crashed, err = run_impl(dh, wd, ["cluster 1,2 0"] + [c_[1] for c_ in comb], engine="dkg")
        rep.cov["threshold_signatures_combined_and_verified"] = sum(1 for x in o2[1:] if x.strip() == "valid")
        for (tag, line), o in zip(comb, o2[1:]):
            if o.strip() != "valid":
                rep.broken.append(("tie:partial-signatures(valid partial signatures over the model's signing root recover a composite signature)",
                                   json.dumps({"scenario": tag, "result": o}), False))
                break
    rep.cov["traces_validated_against_impl"] = len(res)
    if res:
        rep.sample({"scenario": scen[0][0], "lines": [l[:140] for l in scen[0][4][:4]], "impl": [x[:60] for x in res[0]["impl"][:4]]})
    if first_bad is not None:
        tag, ls, a, b = first_bad
        rep.broken.append(("correspondence:dkg-cluster(per-instance signer model vs implementation)",
                           json.dumps({"scenario": tag, "lines": ls[-3:], "impl": a[:120], "model": b[:120]}), found))


def run_dkg(rep, dh, wd, scen, label, procs=None):
    """scen: list of (tag, lines). Returns list of dicts {tag, lines, impl, model, crashed, bad}."""
    from common import run_impl, run_model
    from concurrent.futures import ThreadPoolExecutor
    jobs = min(12, max(1, len(scen) // 3))
    chunks = [scen[i::jobs] for i in range(jobs)]
    chunks = [c for c in chunks if c]

    def run_chunk(ch):
        lines = []
        for sc in ch:
            lines += sc[-1]
        # (procs: the chunks run under these GOMAXPROCS values in turn — util.Scatter hands a worker several entries of a
        #  batch only when the batch is larger than the processor count)
        p_ = procs[chunks.index(ch) % len(procs)] if procs else None
        rep.dist("dkg_gomaxprocs", str(p_ or "default"), len(ch))
        impl, crashed, err = run_impl(dh, wd, lines, engine="dkg", timeout=1800, env={"GOMAXPROCS": str(p_)} if p_ else None)
        res = []
        pos = 0
        for sc in ch:
            n = len(sc[-1])
            seg = impl[pos:pos + n]
            res.append({"tag": sc[0], "extra": sc[1:-1], "lines": sc[-1], "impl": seg, "crashed": crashed and len(seg) < n, "err": err if len(seg) < n else "", "gomaxprocs": p_})
            pos += n
            if len(seg) < n:
                # the process died in this scenario: the remaining scenarios of the chunk did not run
                for sc2 in ch[ch.index(sc) + 1:]:
                    res.append({"tag": sc2[0], "extra": sc2[1:-1], "lines": sc2[-1], "impl": None, "crashed": False, "err": "not run"})
                break
        return res
    results = []
    with ThreadPoolExecutor(max_workers=jobs) as ex:
        for r_ in ex.map(run_chunk, chunks):
            results += r_
    # back into the order of `scen` (chunk k holds scenarios k, k+jobs, k+2*jobs, ...): callers zip results with scenarios
    order = [i for k in range(len(chunks)) for i in range(k, len(scen), jobs)]
    results = [r_ for _, r_ in sorted(zip(order, results), key=lambda p_: p_[0])]
    # rerun scenarios that did not run because an earlier one in their chunk crashed
    pending = [r_ for r_ in results if r_["impl"] is None]
    for r_ in pending:
        impl, crashed, err = run_impl(dh, wd, r_["lines"], engine="dkg", timeout=600)
        r_["impl"] = impl
        r_["crashed"] = crashed and len(impl) < len(r_["lines"])
        r_["err"] = err
    ml = []
    for r_ in results:
        ml += ["reset"] + r_["lines"]
    mout = run_model(ml)
    pos = 0
    for r_ in results:
        n = len(r_["lines"])
        r_["model"] = mout[pos:pos + n]
        pos += n
        bad = []
        for i, l in enumerate(r_["lines"]):
            op = l.split()[0]
            rep.dist("op", op)
            if op not in DKG_DIFF_OPS or i >= len(r_["impl"]):
                continue
            a, b = r_["impl"][i], r_["model"][i] if i < len(r_["model"]) else "<missing>"
            if op == "gen":
                a, b = a.split()[0], b.split()[0]
            if a.strip() != b.strip():
                bad.append((i, l, r_["impl"][i], b))
        r_["bad"] = bad
    return results


def dkg_report_crash(rep, r_, pid):
    i = len(r_["impl"])
    rep.violation("crash-" + (r_["extra"][0].split(":")[0] if r_["extra"] else "dkg"),
                  "an instance process died (panic) while handling a key-generation message",
                  {"scenario": r_["tag"], "lines": r_["lines"][:i + 1], "stderr": r_["err"][-1500:]})


def c12(rep, tier, seed, wd, replay):
    import dkg
    from common import run_impl, run_model
    rep.cov["rule"] = ("generations over real process/standard instances joined by a routing sender through the real receiver handlers: all "
                       "(n,t) with 2<=n<=5 (thorough 7) and EVERY t in 0..n+1; identifier sets small / sparse / near 2^64 / mixed; different "
                       "initiators; delayed commit replies; tampered commit replies; forbidden clients; non-distributed wallets; more "
                       "participants than peers. On success: same composite key, vector, threshold, participants everywhere; share consistent "
                       "with vector (BLS library); every t-subset of real partial signatures recovers a valid composite signature and every "
                       "(t-1)-subset does not; Lagrange recovery of the secret computed by the Lean driver over Z_r from the extracted shares "
                       "maps to the composite key; immediate sign+list on every holder; non-trivial = scenario with a successful generation")
    rep.assumptions += ["herumi BLS (field/group laws, hashing to curve, Recover), CSPRNG quality",
                        "real gRPC between daemons is not available in the sandbox (peer names do not resolve); messages go through the real receiver handlers after a protobuf marshal/unmarshal round trip"]
    prove(rep, "C12")
    dh = build_harness(wd)
    rng = Rng(seed * 7 + 12)
    scen = dkg.c12_scenarios(rng, tier)
    res = run_dkg(rep, dh, wd, scen, "dkg")
    found = False
    first_bad = None
    lag = []
    for r_ in res:
        if r_["crashed"]:
            dkg_report_crash(rep, r_, "C12")
            found = True
            continue
        if r_["bad"] and first_bad is None:
            first_bad = r_
        pubs = {}
        success = False
        for i, l in enumerate(r_["lines"]):
            f = l.split()
            o = r_["impl"][i] if i < len(r_["impl"]) else ""
            if f[0] == "gen" and o.startswith("ok"):
                pubs[f[3]] = o.split()[1]
                success = True
                rep.dist("generation", "ok")
                # success is only possible inside the bounds n/2 < t <= n, n >= 1 (the Lean predicate generateAccepts,
                # = the translated guard of OnGenerate)
                t_, n_ = int(f[4]), int(f[5])
                npeers_ = len([l_ for l_ in r_["lines"] if l_.startswith("cluster ")][0].split()[1].split(","))
                if n_ > npeers_ and not found:
                    rep.violation("generated-with-fewer-participants", "a generation for %d participants reported success on a cluster of %d peers" % (n_, npeers_),
                                  {"scenario": r_["tag"], "lines": r_["lines"][:i + 1], "impl": r_["impl"][:i + 1]})
                    found = True
                if not (n_ != 0 and t_ <= n_ and not (t_ <= n_ // 2)):
                    rep.violation("generated-outside-bounds", "a generation with threshold %d for %d participants reported success" % (t_, n_),
                                  {"scenario": r_["tag"], "lines": r_["lines"][:i + 1], "impl": r_["impl"][:i + 1]})
                    found = True
            elif f[0] == "gen":
                rep.dist("generation", "refused")
            if f[0] == "gensp":
                for spec_, o_ in zip(f[4:], o.split()):
                    rep.dist("generation", "ok(concurrent)" if o_ == "ok" else "refused(concurrent)")
                    if o_ == "ok":
                        pubs[spec_.split(":", 1)[1]] = ""      # reported success (composite key not printed)
                        success = True
            if f[0] == "relations" and f[1] in pubs:      # judged only for a name whose generation reported success
                if not o.startswith("ok") or (pubs.get(f[1]) and ("composite=" + pubs.get(f[1], "?")) not in o):
                    rep.violation("inconsistent-key", "after a successful generation the participants do not hold one consistent threshold key: " + o[:120],
                                  {"scenario": r_["tag"], "lines": r_["lines"][:i + 1], "impl": r_["impl"][:i + 1]})
                    found = True
            if f[0] == "recover" and f[1] in pubs and not o.startswith("ok"):
                rep.violation("threshold-recovery", "threshold signatures do not behave as t-of-n: " + o[:120],
                              {"scenario": r_["tag"], "lines": r_["lines"][:i + 1], "impl": r_["impl"][:i + 1]})
                found = True
            if f[0] == "use" and f[1] in pubs and o != "ok":
                rep.violation("not-usable", "a freshly generated account is not immediately usable for signing/listing: " + o[:120],
                              {"scenario": r_["tag"], "lines": r_["lines"][:i + 1], "impl": r_["impl"][:i + 1]})
                found = True
            if f[0] == "shares" and f[1] in pubs and ":" in o:
                pts = o.split()
                t = None
                for j in range(i, -1, -1):
                    if r_["lines"][j].startswith("gen"):
                        t = int(r_["lines"][j].split()[4])
                        break
                import itertools
                subs = list(itertools.combinations(pts, t))[:6]
                for sub in subs:
                    lag.append((pubs.get(f[1]), "lagrange " + " ".join(sub), r_["tag"]))
        rep.count(r_["tag"], success)
    if lag:
        secrets = run_model([x[1] for x in lag])
        out, crashed, err = run_impl(dh, wd, ["cluster 1,2 0"] + ["pubof %s" % s_ for s_ in secrets], engine="dkg")
        rep.cov["lagrange_recoveries_by_lean_driver"] = len(lag)
        for (want, line, tag), got in zip(lag, out[1:]):
            if want != got.strip():
                rep.violation("lagrange-mismatch", "the secret recovered by Lagrange interpolation (Lean driver, Z_r) from a t-subset of the shares does not map to the composite public key",
                              {"scenario": tag, "lagrange": line[:300], "composite": want, "pub_of_recovered": got})
                found = True
                break
    if res:
        r_ = res[0]
        rep.sample({"scenario": r_["tag"], "lines": r_["lines"][:3], "impl": [x[:100] for x in r_["impl"][:3]], "model": r_["model"][:3]})
    rep.cov["traces_validated_against_impl"] = len(res)
    if first_bad is not None:
        i, l, a, b = first_bad["bad"][0]
        rep.broken.append(("correspondence:dkg(model generateOutcome/holds vs process service)",
                           json.dumps({"scenario": first_bad["tag"], "lines": first_bad["lines"][:i + 1], "impl": a[:200], "model": b[:200]}), found))


def c13(rep, tier, seed, wd, replay):
    import dkg
    rep.cov["rule"] = ("for (n,t) in {(2,2),(3,2),(3,3)} (thorough +(4,3)) EVERY fault kind (message lost, error reply, share replaced, "
                       "commitment altered, vector too short / too long / too long with a neutral extra entry, altered reply share / vector, "
                       "duplicate delivery) at EVERY prepare / execute / contribute message position; expected: the generation ends with an "
                       "error, no instance holds the account, no process dies, and a clean generation afterwards succeeds; enumerated completely")
    rep.assumptions += ["faults are injected by the routing sender between the instances (the real transport is not available in the sandbox)"]
    prove(rep, "C13")
    dh = build_harness(wd)
    scen = dkg.c13_scenarios(tier)
    res = run_dkg(rep, dh, wd, scen, "dkg-faults")
    found = False
    first_bad = None
    for r_ in res:
        fault = r_["extra"][0]
        rep.dist("fault", fault.split(":")[0])
        rep.count(r_["tag"], True)
        if r_["crashed"]:
            dkg_report_crash(rep, r_, "C13")
            found = True
            continue
        if r_["bad"] and first_bad is None:
            first_bad = r_
        if fault.split(":")[0] == "dup":
            # a valid contribution delivered twice is not an invalid exchange: the generation may succeed (then EVERY participant
            # holds the account) or end with an error (then NONE does)
            gen_o, holds_o = r_["impl"][1], r_["impl"][2]
            rep.dist("duplicate_delivery", gen_o.split()[0])
            if (gen_o.startswith("ok") and "false" in holds_o) or (not gen_o.startswith("ok") and "true" in holds_o):
                rep.violation("account-after-dup", "after a contribution was delivered twice the generation %s but %s" %
                              ("reported success" if gen_o.startswith("ok") else "ended with an error", "not every participant holds the account" if gen_o.startswith("ok") else "some participants hold an account"),
                              {"scenario": r_["tag"], "lines": r_["lines"][:3], "impl": r_["impl"][:3]})
                found = True
            continue
        if fault == "overlap":
            gens_o, holds_o = r_["impl"][1], r_["impl"][2]
            rep.dist("overlap", gens_o)
            if "ok" not in gens_o.split() and "true" in holds_o:
                rep.violation("account-after-overlap", "both overlapping generations for one name ended with an error, yet instances hold an account under that name",
                              {"scenario": r_["tag"], "lines": r_["lines"][:3], "impl": r_["impl"][:3]})
                found = True
            continue
        gen_o, holds_o = r_["impl"][1], r_["impl"][2]
        if gen_o.startswith("ok") or "true" in holds_o:
            rep.violation("account-after-" + fault.split(":")[0],
                          "a generation with an invalid or failed exchange %s" % ("reported success" if gen_o.startswith("ok") else "left an account behind"),
                          {"scenario": r_["tag"], "lines": r_["lines"][:3], "impl": r_["impl"][:3]})
            found = True
    rep.cov["exhaustive"] = True
    rep.cov["traces_validated_against_impl"] = len(res)
    if res:
        r_ = res[-1]
        rep.sample({"scenario": r_["tag"], "lines": r_["lines"][:3], "impl": [x[:100] for x in r_["impl"][:3]]})
    if first_bad is not None:
        i, l, a, b = first_bad["bad"][0]
        rep.broken.append(("correspondence:dkg-faults(model generateOutcome vs process service)",
                           json.dumps({"scenario": first_bad["tag"], "lines": first_bad["lines"][:i + 1], "impl": a[:200], "model": b[:200]}), found))


def c16(rep, tier, seed, wd, replay):
    import dkg
    rep.cov["rule"] = ("real receiver handlers with context-injected authenticated names: every caller kind (ordinary client with full "
                       "permissions, empty, unknown, a peer name in another case, an unconfigured signer name, a near-miss name) x the five "
                       "protocol messages x every instance x session states none/prepared/executed/committed; afterwards the generation is "
                       "driven to completion by a peer to show nothing was disturbed; each peer identity is honoured; share ownership for all "
                       "ordered participant pairs: the share in a contribution reply verifies against the owner's vector at the caller's id only; "
                       "the matrix is enumerated completely")
    prove(rep, "C16")
    dh = build_harness(wd)
    # over real TLS: the five key-generation methods of a real daemon under every credential kind; a caller whose VERIFIED
    # (leaf) certificate name is not a configured peer must be answered "unknown sender" (or refused at the transport)
    if REPLAY is None:
        from common import sh, REPO
        d = os.path.join(wd, "tls")
        os.makedirs(d, exist_ok=True)
        rc, out, err = sh([dh, "tls", d, REPO], timeout=600)
        if rc != 0:
            raise Broken("tls-engine", err[-2000:])
        ntls = 0
        for l in out.splitlines():
            f = l.split()
            if len(f) != 4 or "/v1.DKG/" not in f[1]:
                continue
            kind, meth, wallet, res = f
            ntls += 1
            rep.count("tls|" + l, True)
            leaf = kind.split(":", 1)[1].split("+")[0] if ":" in kind else ""
            verified = kind.split(":")[0] in ("valid", "chain")
            is_peer = verified and leaf in DAEMON_PEERS
            honoured = res.startswith("served") and "unknown_sender" not in res.lower().replace(" ", "_")
            rep.dist("tls_dkg", ("peer" if is_peer else "non-peer") + ":" + ("honoured" if honoured else "refused"))
            if honoured and not is_peer:
                rep.violation("non-peer-honoured-over-tls", "a key-generation message from a caller whose verified certificate name is not a configured peer was acted on",
                              {"credential": kind, "method": meth, "result": res})
                break
        rep.cov["tls_dkg_calls_judged"] = ntls
    scen = dkg.c16_scenarios(tier)
    res = run_dkg(rep, dh, wd, scen, "dkg-auth")
    found = False
    first_bad = None
    for r_ in res:
        rep.count(r_["tag"], True)
        if r_["crashed"]:
            dkg_report_crash(rep, r_, "C16")
            found = True
            continue
        for i, l in enumerate(r_["lines"]):
            f = l.split()
            o = r_["impl"][i]
            if f[0] == "msglog" and i + 1 < len(r_["lines"]) and r_["lines"][i + 1].startswith("parts "):
                parts_ = set(r_["lines"][i + 1].split()[1].split(","))
                for tok in o.split():
                    if tok.startswith("contribute:"):
                        dst = tok.split(">")[1]
                        rep.dist("contribution_target", "listed" if dst in parts_ else "NOT-LISTED")
                        if dst not in parts_:
                            rep.violation("share-sent-to-non-participant", "a contribution (carrying the share computed for a listed participant) was sent to an instance that is not a participant",
                                          {"scenario": r_["tag"], "lines": r_["lines"][:i + 1], "impl": r_["impl"][:i + 1]})
                            found = True
            if f[0] == "peerscfg":
                names_ = [bytes.fromhex(h_).decode(errors="replace").split(":")[0] for h_ in f[1].split(",")]
                dup_ = len(set(names_)) != len(names_)
                rep.dist("peer_table", ("duplicate-name:" if dup_ else "distinct:") + o)
                if dup_ and o == "ok":
                    rep.violation("ambiguous-peer-table-accepted", "a peer table in which one name stands under two ids was accepted: a caller authenticated under that name is two participants (and is handed both their shares)",
                                  {"scenario": r_["tag"], "lines": r_["lines"][:i + 1], "impl": r_["impl"][:i + 1], "names": names_})
                    found = True
            if f[0] == "shareowners":
                rep.dist("shareowners", o.split()[0])
                if o.startswith("MISMATCH"):
                    rep.violation("share-not-callers", "a contribution reply examined after later calls were handled no longer carries its own caller's share: " + o,
                                  {"scenario": r_["tag"], "lines": r_["lines"][:i + 1], "impl": r_["impl"][:i + 1]})
                    found = True
                elif not o.startswith("ok="):
                    rep.broken.append(("harness:shareowners", json.dumps({"scenario": r_["tag"], "result": o}), False))
            if f[0] == "sendowners":
                rep.dist("sendowners", o.split()[0])
                if o.startswith("MISMATCH"):
                    rep.violation("share-sent-to-another-participant", "a share handed to the transport during Execute (with sends failing in transit) is not the share of the endpoint it was addressed to: " + o,
                                  {"scenario": r_["tag"], "lines": r_["lines"][:i + 1], "impl": r_["impl"][:i + 1]})
                    found = True
                elif not o.startswith("ok=") or o == "ok=0":
                    rep.broken.append(("harness:sendowners", json.dumps({"scenario": r_["tag"], "result": o}), False))
            if f[0] == "shareowner":
                rep.dist("shareowner", o)
                if o != "share-for=%s" % f[2]:
                    rep.violation("share-not-callers", "the share in a contribution reply is not (only) the authenticated caller's: " + o,
                                  {"scenario": r_["tag"], "lines": r_["lines"][:i + 1], "impl": r_["impl"][:i + 1]})
                    found = True
        for (i, l, a, b) in r_["bad"]:
            f = l.split()
            if f[0] == "hexecute2" and len(a.split()) == 2 and len(b.split()) == 2:
                for q_, (ta, tb) in enumerate(zip(a.split(), b.split())):
                    if tb == "E:unknownsender" and ta != tb and not found:
                        rep.violation("non-peer-honoured", "an Execute from a caller that is not a configured peer, overlapping a peer's Execute for the same account, was acted on (%s)" % ta,
                                      {"scenario": r_["tag"], "lines": r_["lines"][:i + 1], "impl": r_["impl"][:i + 1]})
                        found = True
                    elif tb == "ok" and ta == "E:unknownsender" and not found:
                        rep.violation("refused-message-changed-state", "a peer's Execute was refused as 'unknown sender' because a non-peer's Execute for the same account was in flight",
                                      {"scenario": r_["tag"], "lines": r_["lines"][:i + 1], "impl": r_["impl"][:i + 1]})
                        found = True
                if found:
                    break
            if f[0] in dkg.MSGS and b == "E:unknownsender" and a != b:
                rep.violation("non-peer-honoured", "a key-generation message from a caller that is not a configured peer was acted on (%s)" % a,
                              {"scenario": r_["tag"], "lines": r_["lines"][:i + 1], "impl": r_["impl"][:i + 1]})
                found = True
                break
        if r_["bad"] and first_bad is None:
            first_bad = r_
    rep.cov["exhaustive"] = True
    rep.cov["traces_validated_against_impl"] = len(res)
    if res:
        r_ = res[1]
        rep.sample({"scenario": r_["tag"], "lines": r_["lines"][1:4], "impl": r_["impl"][1:4]})
    if first_bad is not None and not found:
        # "refused AND changes nothing", decided on the implementation alone: run the same scenario without the messages the
        # implementation refused as coming from an unknown sender; every other reply must be what it was with them
        from common import run_impl
        fb = first_bad
        refused = {k for k, o in enumerate(fb["impl"]) if o.strip() == "E:unknownsender" and fb["lines"][k].split()[0] in dkg.MSGS}
        if refused:
            keep = [k for k in range(len(fb["lines"])) if k not in refused]
            po, pc, pe = run_impl(dh, wd, [fb["lines"][k] for k in keep], engine="dkg", timeout=600)
            if not pc and len(po) == len(keep):
                for k, o in zip(keep, po):
                    if o.strip() != fb["impl"][k].strip() and fb["lines"][k].split()[0] not in ("msglog",):
                        rep.violation("refused-message-changed-state", "a key-generation message refused as coming from an unknown sender changed what later "
                                      "messages from peers are answered (%s with it, %s without it)" % (fb["impl"][k].strip()[:60], o.strip()[:60]),
                                      {"scenario": fb["tag"], "lines": fb["lines"][:k + 1], "impl": fb["impl"][:k + 1],
                                       "refused_lines": sorted(q for q in refused if q < k), "reply_without_them": o.strip()[:200]})
                        found = True
                        break
    if first_bad is not None:
        i, l, a, b = first_bad["bad"][0]
        rep.broken.append(("correspondence:dkg-auth(model receiver handlers vs implementation)",
                           json.dumps({"scenario": first_bad["tag"], "lines": first_bad["lines"][:i + 1], "impl": a[:200], "model": b[:200]}), found))


def c17(rep, tier, seed, wd, replay):
    import dkg
    from common import run_model
    rep.cov["rule"] = ("event sequences (prepare / execute / contribute / commit / abort from peer identities, short and expiring sleeps, a "
                       "generation timeout of 3 s) over two account names on real instances: hand-written lifecycles (full, early commit and "
                       "abort, expiry, two names interleaved, a contribution from a peer that is not a listed participant) plus seeded random "
                       "sequences restricted to outcomes that do not depend on Go's map iteration order; the reply class of every event and the "
                       "presence of the account are compared with the Lean state machine; every successful commit is judged 'all listed "
                       "participants contributed' on the model state")
    rep.assumptions += ["the model clock advances only by explicit sleeps; sleeps are chosen far from the timeout (<= 0.3 s or >= 3.6 s against 3 s)"]
    prove(rep, "C17")
    dh = build_harness(wd)
    rng = Rng(seed * 13 + 17)
    scen = dkg.c17_scenarios(rng, tier)
    res = run_dkg(rep, dh, wd, scen, "dkg-life")
    found = False
    first_bad = None
    jl, jm = [], []
    for ri, r_ in enumerate(res):
        rep.count(r_["tag"], True)
        if r_["crashed"]:
            dkg_report_crash(rep, r_, "C17")
            found = True
            continue
        jl.append("reset")
        for i, l in enumerate(r_["lines"]):
            f = l.split()
            if f[0] == "hcommit" and i < len(r_["impl"]):
                rep.dist("commit", r_["impl"][i])
                jl.append("jcommit %s %s %s" % (f[1], f[3], r_["impl"][i]))
                jm.append((ri, i))
            if f[0] in DKG_DIFF_OPS:
                jl.append(l)
                jm.append(None)
        if r_["bad"] and first_bad is None:
            first_bad = r_
        # "after the timeout (commit, abort) a new generation for that name may start": a Prepare from a peer that the state
        # machine accepts (no generation active for the name on that instance) must not be refused
        for (i, l, a, b) in r_["bad"]:
            if l.split()[0] == "hprepare" and b.strip() == "ok" and a.strip() != "ok" and not found:
                rep.violation("prepare-refused-without-active-generation", "a Prepare for a name with no active generation on that instance was refused (%s)" % a.strip()[:60],
                              {"scenario": r_["tag"], "lines": r_["lines"][:i + 1], "impl": r_["impl"][:i + 1]})
                found = True
    out = run_model(jl)
    for m, o in zip(jm, out):
        if m is not None and o.strip() not in ("ok",):
            ri, i = m
            rep.violation("commit-" + o.strip(), "a commit succeeded although not every listed participant had contributed (%s)" % o.strip(),
                          {"scenario": res[ri]["tag"], "lines": res[ri]["lines"][:i + 1], "impl": res[ri]["impl"][:i + 1]})
            found = True
            break
    # the lifecycle clauses judged on the implementation's replies alone (Spec.Life): no prepare accepted while a
    # generation for that name is active on that instance, nothing else accepted while none is
    ll, lm = [], []
    for ri, r_ in enumerate(res):
        if r_["crashed"]:
            continue
        for i, l in enumerate(r_["lines"]):
            f = l.split()
            if f[0] == "cluster":
                ll.append("jlife-reset %s" % f[2]); lm.append(None)
            elif f[0] == "sleep":
                ll.append("jlife-sleep %s" % f[1]); lm.append(None)
            elif f[0] == "cprepare" and i < len(r_["impl"]) and r_["impl"][i].startswith("ok="):
                nok = int(r_["impl"][i][3:])
                rep.dist("concurrent_prepares_accepted", str(nok))
                for q_ in range(int(f[4])):
                    ll.append("jlife prepare %s %s %s" % (f[1], f[3], "ok" if q_ < nok else "no"))
                    lm.append((ri, i))
            elif f[0] in ("hprepare", "hexecute", "hcontribute", "hcontributev", "hcommit", "habort") and i < len(r_["impl"]):
                ll.append("jlife %s %s %s %s" % (f[0][1:].rstrip("v"), f[1], f[3], "ok" if r_["impl"][i].strip() == "ok" else "no"))
                lm.append((ri, i))
                rep.dist("life_reply", f[0][1:] + ":" + ("accepted" if r_["impl"][i].strip() == "ok" else "refused"))
    out = run_model(ll)
    for m, o in zip(lm, out):
        if m is not None and o.strip() != "ok":
            ri, i = m
            rep.violation("lifecycle-" + o.strip(), "the implementation's replies break the one-generation-per-name lifecycle (%s)" % o.strip(),
                          {"scenario": res[ri]["tag"], "lines": res[ri]["lines"][:i + 1], "impl": res[ri]["impl"][:i + 1]})
            found = True
            break
    rep.cov["traces_validated_against_impl"] = len(res)
    if res:
        r_ = res[0]
        rep.sample({"scenario": r_["tag"], "lines": r_["lines"][:4], "impl": r_["impl"][:4], "model": r_["model"][:4]})
    if first_bad is not None:
        i, l, a, b = first_bad["bad"][0]
        rep.broken.append(("correspondence:dkg-life(model session state machine vs process service)",
                           json.dumps({"scenario": first_bad["tag"], "lines": first_bad["lines"][:i + 1], "impl": a[:200], "model": b[:200]}), found))


THEOREMS.update({
    "C12": ("Dirk.Props.C12", ["Dirk.Dkg.C12_share_consistent", "Dirk.Dkg.C12_same_key", "Dirk.Dkg.C12_recover", "Dirk.Dkg.C12_fewer_fail",
                               "Dirk.Dkg.C12_bounds", "Dirk.Dkg.C12_protocol_success", "Dirk.Dkg.C12_generation_succeeds", "Dirk.Dkg.C12_kernel_is_source"]),
    "C20": ("Dirk.Props.C20", ["Dirk.C20_handler_response_is_source", "Dirk.hSignAtts_eq_gen", "Dirk.hMultisign_eq_gen", "Dirk.handler_shape_is_source", "Dirk.C20_sites_covered", "Dirk.C20_domain_slice_safe", "Dirk.C20_alloc_bounded", "Dirk.C20_dkg_non_peer",
                               "Dirk.C20_handlers_shape", "Dirk.C20_kernel_is_source", "Dirk.C20_legacy_counterexample"]),
    "C19": ("Dirk.Props.C19", ["Dirk.C19_policy", "Dirk.C19", "Dirk.facts_tls_clientAuth", "Dirk.facts_tls_minVersion", "Dirk.facts_tls_clientCAs",
                               "Dirk.facts_tls_creds", "Dirk.facts_tls_fields", "Dirk.facts_services", "Dirk.facts_interceptor", "Dirk.facts_clientName"]),
    "C18": ("Dirk.Props.C18Whole", ["Dirk.C18_kernel_is_source", "Dirk.C18_sound", "Dirk.C18_complete", "Dirk.C18_fields", "Dirk.C18_dynamic",
                                    "Dirk.C18_complete_whole_name", "Dirk.C18_anchor_only_widens"]),
    "C14": ("Dirk.Props.C14", ["Dirk.C14", "Dirk.C14_proposals", "Dirk.C14_with_imports", "Dirk.C14_threshold_from_generation"]),
    "C13": ("Dirk.Props.C13", ["Dirk.Dkg.C13_reject", "Dirk.Dkg.C13_no_account", "Dirk.Dkg.C13_legacy_counterexample", "Dirk.Dkg.C13_kernel_is_source"]),
    "C16": ("Dirk.Props.C16", ["Dirk.Dkg.C16_accepted_peers_distinct", "Dirk.Dkg.C16_duplicate_peer_name_refused", "Dirk.Dkg.C16_refuse_non_peer", "Dirk.Dkg.C16_share_owner", "Dirk.Dkg.C16_projection", "Dirk.Dkg.C16_kernel_is_source"]),
    "C17": ("Dirk.Props.C17", ["Dirk.Dkg.C17_prepare_twice", "Dirk.Dkg.C17_requires_active", "Dirk.Dkg.C17_gone_after",
                               "Dirk.Dkg.C17_commit_complete", "Dirk.Dkg.C17_independent_names", "Dirk.Dkg.C17_lifecycle_all_histories",
                               "Dirk.Dkg.C17_kernel_is_source", "Dirk.Dkg.C17_legacy_counterexample"]),
    "C03": ("Dirk.Props.C03", ["Dirk.C03_recorded_before_release", "Dirk.C03_refuses_after_crash", "Dirk.C03_released_never_slashable",
                               "Dirk.facts_sync_writes", "Dirk.facts_store_options", "Dirk.facts_action_bytes", "Dirk.facts_result_switches_total"]),
    "C04": ("Dirk.Props.LockProtocolSource", ["Dirk.C04_lock_protocol_is_source", "Dirk.C15_distinct_keys_is_source", "Dirk.C04_rules_path_is_source", "Dirk.Conc.C04_mutual_exclusion", "Dirk.Conc.C04_commit_atomic", "Dirk.Conc.C04_linearizable",
                               "Dirk.Conc.C04_real_time_order", "Dirk.C04_footprint_attest", "Dirk.C04_trace_is_protocol"]),
    "C15": ("Dirk.Props.LockProtocolSource", ["Dirk.C04_lock_protocol_is_source", "Dirk.C15_distinct_keys_is_source", "Dirk.Conc.C15_progress", "Dirk.Conc.C15_measure", "Dirk.Conc.C15_complete", "Dirk.Conc.C15_needs_global"]),
    "C08": ("Dirk.Props.C08Bind", ["Dirk.C08_batch_pointwise", "Dirk.C08_leaves_injective", "Dirk.C08_header_leaves_injective",
                                   "Dirk.C08_signed_root", "Dirk.C08_att_root_binds", "Dirk.C08_header_root_binds", "Dirk.C08_generic_root_binds",
                                   "Dirk.C08_digest_length"]),
    "C09": ("Dirk.Props.C09", ["Dirk.C09_scatter_partition", "Dirk.C09_batch_eq_seq", "Dirk.C09_live_att_rule",
                               "Dirk.C09_live_prop_rule", "Dirk.C09_live_att", "Dirk.C09_live_prop", "Dirk.C09_kernel_is_source"]),
    "C11": ("Dirk.Props.C11", ["Dirk.C11_codec_roundtrip", "Dirk.C11_restart", "Dirk.C11_import_export_same_decisions",
                               "Dirk.C11_export_exact", "Dirk.C11_last_is_highest"]),
    "C10": ("Dirk.Props.C10", ["Dirk.C10_never_lowers", "Dirk.C10_protects", "Dirk.C10_composes", "Dirk.C10_range_any", "Dirk.C10_import_command_keeps_invariants", "Dirk.C10_kernel_is_source", "Dirk.facts_store_options", "Dirk.C10_refuses_after_prop",
                               "Dirk.C10_refuses_after_att", "Dirk.C10_bad_metadata", "Dirk.C10_parse_error_no_change",
                               "Dirk.C10_legacy_counterexample", "Dirk.C10_sequence_never_lowers", "Dirk.C10_sequence_protects", "Dirk.C10_sequence_refuses_prop", "Dirk.C10_sequence_refuses_att"]),
    "C07": ("Dirk.Props.C07Refine", ["Dirk.C07_kernel_is_source", "Dirk.C07_precheck_is_source", "Dirk.C07_check_refines_spec", "Dirk.C07_served_has_bearing", "Dirk.C07_scan_eq_spec", "Dirk.C07_default_deny", "Dirk.C07_unknown_client", "Dirk.C07_no_identity",
                               "Dirk.C07_refused_no_effect_att", "Dirk.C07_refused_no_effect_prop", "Dirk.C07_refused_no_effect_sign",
                               "Dirk.C07_refused_no_effect_atts", "Dirk.C07_resolved_account", "Dirk.C07_legacy_counterexample",
                               "Dirk.C07_fixed_alternation", "Dirk.C07_whole_name", "Dirk.C07_entry_matches_spec",
                               "Dirk.Re.search_anchored", "Dirk.Re.matchFrom_iff"]),
    "C05": ("Dirk.Props.C05", ["Dirk.C05_dispatch_is_source", "Dirk.C05_generic_single", "Dirk.C05_generic_multi", "Dirk.C05_attest_only_attester",
                               "Dirk.C05_propose_only_proposer", "Dirk.C05_logs", "Dirk.C05_kernel_is_source"]),
    "C06": ("Dirk.Props.C06Short", ["Dirk.C06_att", "Dirk.C06_prop", "Dirk.C06_sign", "Dirk.C06_atts", "Dirk.C06_msign",
                               "Dirk.C06_att_fault", "Dirk.C06_prop_fault", "Dirk.C06_batch_store_fault",
                               "Dirk.C06_batch_fetch_fault", "Dirk.C06_shape_atts", "Dirk.C06_shape_msign",
                               "Dirk.C06_lock_state_fault_att", "Dirk.C06_lock_state_fault_prop", "Dirk.C06_lock_state_fault_sign",
                               "Dirk.C06_lock_state_fault_atts", "Dirk.C06_lock_state_fault_msign",
                               "Dirk.C06_unruled_atts", "Dirk.C06_unruled_msign", "Dirk.C06_unruled_is_prefix",
                               "Dirk.C06_kernel_is_source", "Dirk.signLoopBound_is_rules_results",
                               "Dirk.facts_rules_results", "Dirk.facts_result_switches_total", "Dirk.facts_result_switches_present"]),
})

HIST_REPLAY = ("C01", "C02", "C03", "C05", "C06", "C07", "C09", "C10", "C11", "C19", "C20")     # their own engines take a replay history / probe


def generic_replay(rep, pid, tier, seed, wd):
    """./check Cxx --replay FILE for the engines without a replay path of their own: the stored input is executed again
    on the implementation (rebuilt from /repo) and on the Lean model through the engine it came from; the replay counts as
    reproduced when the implementation crashes or stops answering, when it differs from the proven model at a line the
    property's comparison looks at, or when one of the generic judges (slashable pair among released signatures, signature
    not over the model's root, lifecycle judge) objects."""
    from common import run_impl, run_model
    prove(rep, pid)
    dh = build_harness(wd)
    r = REPLAY
    env = {"GOMAXPROCS": str(r["gomaxprocs"])} if r.get("gomaxprocs") else None
    if "lines" in r:                                             # dkg family
        lines = r["lines"]
        impl, crashed, err = run_impl(dh, wd, lines, engine="dkg", timeout=900, env=env)
        model = run_model(["reset"] + lines)
        rep.cov["replay"] = "dkg engine, %d lines" % len(lines)
        if crashed or len(impl) < len(lines):
            rep.violation("replay-crash", "an instance process died or stopped answering on the replayed input", {"lines": lines, "impl": impl, "stderr": err[-1500:]})
            return
        diff = [(i, l, impl[i], model[i]) for i, l in enumerate(lines)
                if l.split()[0] in DKG_DIFF_OPS + DKG_DIFF_OPS_C14 and i < len(model) and hist.states_of(impl[i].split()[0] if l.startswith("gen") else impl[i]) != hist.states_of(model[i].split()[0] if l.startswith("gen") else model[i])]
        jl = []
        for i, l in enumerate(lines):
            f = l.split()
            if f[0] == "cluster":
                jl.append("jlife-reset %s" % f[2])
            elif f[0] == "sleep":
                jl.append("jlife-sleep %s" % f[1])
            elif f[0] in ("hprepare", "hexecute", "hcontribute", "hcontributev", "hcommit", "habort"):
                jl.append("jlife %s %s %s %s" % (f[0][1:].rstrip("v"), f[1], f[3], "ok" if impl[i].strip() == "ok" else "no"))
        verdicts = [o.strip() for o in run_model(jl) if o.strip() not in ("ok",)] if jl else []
        for i, l in enumerate(lines):
            f = l.split()
            if (f[0] in ("use", "recover") and not impl[i].startswith("ok")) or (f[0] == "relations" and impl[i].startswith("bad")):
                verdicts.append("%s: %s" % (f[0], impl[i][:80]))
        for i, l in enumerate(lines):
            print("  %-60s impl=%-40s model=%s" % (l[:60], impl[i][:40], model[i][:40] if i < len(model) else "?"))
        if diff or verdicts:
            rep.violation("replay-differs", "on the replayed input the implementation departs from the proven model" + (" / lifecycle judge: " + verdicts[0] if verdicts else ""),
                          {"lines": lines, "first_difference": {"line": diff[0][1], "impl": diff[0][2], "model": diff[0][3]} if diff else None, "judge": verdicts[:3]})
        return
    if "config" in r and ("ops" in r or "scenario" in r):       # run engine: histories, listings, concurrent scenarios
        body = r.get("ops") or r.get("scenario")
        lines = ["reset"] + r["config"] + body
        impl, crashed, err = run_impl(dh, wd, lines, env=env, timeout=900)
        conc_ = "scenario" in r
        rep.cov["replay"] = "run engine, %d lines%s" % (len(body), " (concurrent)" if conc_ else "")
        if any(o.startswith("TIMEOUT") for o in impl):
            rep.violation("replay-deadlock", "concurrent requests did not all complete on the replayed scenario: " + [o for o in impl if o.startswith("TIMEOUT")][0], dict(r))
            return
        if crashed or len(impl) < len(body) + 1:
            rep.violation("replay-crash", "the harness process died on the replayed input", {"config": r["config"], "ops": body, "stderr": err[-1500:]})
            return
        accts = hist.accts_from_config(r["config"])
        if conc_:
            import conc
            go_i = [i for i, l in enumerate(body) if l.startswith("go ")]
            ops_seq, impl_seq = [], []
            for i, l in enumerate(body):
                if l.split()[0] in SIGN_KINDS:
                    ops_seq.append(l); impl_seq.append(impl[1 + i])
            if go_i:
                res = conc.parse_go(impl[1 + go_i[0]])
                cops = [l.split(None, 2)[2] if l.startswith("cop ") else l.split(None, 3)[3] for l in body if l.startswith("cop")]
                ops_seq += cops
                impl_seq += [x[2] for x in res]
            h = {"cfg": r["config"], "ops": ops_seq, "impl": impl_seq, "accts": accts}
            bad, _ = engines.judge_slashing([h], orderfree=True)
            if all(o.split()[0] in ("sign", "msign") for o in ops_seq):
                # stateless requests: the model's answer does not depend on the order, so every signature can be verified
                h["model"] = run_model(["reset"] + r["config"] + ops_seq)[1:]
                badsig, nsig = engines.sigcheck(dh, [h])
                if badsig:
                    rep.violation("replay-bad-signature", "%d of %d signatures of the replayed concurrent scenario do not verify for their own request" % (len(badsig), nsig), dict(r))
                    return
            if bad:
                rep.violation("replay-slashable", "the replayed concurrent scenario released a slashable pair (%s)" % bad[0][-1], dict(r, observed=impl_seq))
            else:
                print("  all %d requests completed; no slashable pair among the released signatures" % len(impl_seq))
            return
        model = run_model(lines)
        h = {"cfg": r["config"], "ops": body, "impl": impl[1:], "model": model[1:], "accts": accts}
        h["bad"] = hist.compare_lines(body, h["impl"], h["model"])
        for i, l in enumerate(body):
            print("  %-50s impl=%-50s model=%s" % (l[:50], h["impl"][i][:50] if i < len(h["impl"]) else "?", h["model"][i][:50] if i < len(h["model"]) else "?"))
        bad, _ = engines.judge_slashing([h])
        badsig, _ = engines.sigcheck(dh, [h])
        if h["bad"] or bad or badsig:
            rep.violation("replay-differs", "on the replayed input the implementation departs from the proven model or a judge objects",
                          {"config": r["config"], "ops": body, "difference": [list(b) for b in h["bad"][:2]], "slashing_judge": [b[-1] for b in bad[:2]], "bad_signature_positions": badsig[:2]})
        return
    print("REPLAY property=%s: this replay file (%s) carries no re-executable input for a generic engine; run `./check %s` itself" % (pid, ", ".join(sorted(r)), pid))
    rep.cov["replay"] = "not re-executable"


def _with_replay(pid, fn):
    def run(rep, tier, seed, wd, replay):
        if REPLAY is not None and pid not in HIST_REPLAY:
            return generic_replay(rep, pid, tier, seed, wd)
        return fn(rep, tier, seed, wd, replay)
    return run


CHECKS = {"C01": c01, "C02": c02, "C05": c05, "C06": c06, "C07": c07, "C08": c08, "C09": c09, "C10": c10, "C11": c11, "C04": c04, "C15": c15, "C03": c03, "C12": c12, "C13": c13, "C16": c16, "C17": c17, "C14": c14, "C18": c18, "C19": c19, "C20": c20}

CHECKS = {k: _with_replay(k, v) for k, v in CHECKS.items()}
