#!/bin/sh
# Builds the verification framework offline from files on disk: the Lean model, theorems and driver,
# and warms the Go build cache for the harness and for dirk itself.
set -e
cd "$(dirname "$0")"
export GOFLAGS=-mod=mod GOPROXY=off GOSUMDB=off GOTOOLCHAIN=local
mkdir -p .work evidence replays
(cd factx && go build -o ../.work/factx-bin . && ../.work/factx-bin /repo ../lean/Dirk/Gen/Facts.lean)
(cd lean && lake build)
cp /repo/go.sum harness/go.sum
(cd harness && go build -tags verif -o ../.work/dh-warm ./cmd/dh && rm -f ../.work/dh-warm)
(cd /repo && go build -o /verif/.work/dirk-warm . && rm -f /verif/.work/dirk-warm)
echo setup-ok
