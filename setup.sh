#!/bin/sh
# Builds the verification framework offline from files on disk: the Lean model, theorems and driver,
# and warms the Go build cache for the harness and for dirk itself.
set -e
cd "$(dirname "$0")"
export GOFLAGS=-mod=mod GOPROXY=off GOSUMDB=off GOTOOLCHAIN=local
mkdir -p .work evidence replays
REPO="${DIRK_REPO:-/repo}"
HERE="$(pwd)"
(cd factx && go build -o ../.work/factx-bin . && ../.work/factx-bin "$REPO" ../lean/Dirk/Gen/Facts.lean)
(cd lean && lake build)
cp "$REPO/go.sum" harness/go.sum
[ "$REPO" != /repo ] || (cd harness && go build -tags verif -o ../.work/dh-warm ./cmd/dh && rm -f ../.work/dh-warm)
# the race-detector build of the harness (C20's concurrent burst): warm the build cache
[ "$REPO" != /repo ] || (cd harness && go build -race -tags verif -o ../.work/dh-race-warm ./cmd/dh && rm -f ../.work/dh-race-warm)
(cd "$REPO" && go build -o "$HERE/.work/dirk-warm" . && rm -f "$HERE/.work/dirk-warm")
echo setup-ok
